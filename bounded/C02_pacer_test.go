// Bounded stand-in (labelled "bounded", never counted as proved) for the part of the GCC leaky-bucket pacer that runs in
// its own goroutine and is outside the deductive subset: one packet of EVERY payload size from 0 to 4000 bytes is
// written to a real pacer; each must reach the stream's writer exactly once, in order, with the bytes it had when it
// was accepted, and nothing may panic (a panic in the pacing goroutine fails the test binary).
package gcc

import (
	"fmt"
	"testing"
	"time"

	"github.com/pion/interceptor"
	"github.com/pion/rtp"
)

func TestBoundedPacerSizes(t *testing.T) {
	const maxSize = 4000
	p := NewLeakyBucketPacer(2_000_000_000)
	defer p.Close() //nolint:errcheck
	type got struct {
		seq  uint16
		size int
		ok   bool
	}
	ch := make(chan got, maxSize+1)
	p.AddStream(9, interceptor.RTPWriterFunc(func(h *rtp.Header, payload []byte, _ interceptor.Attributes) (int, error) {
		ok := true
		for k, b := range payload {
			if b != byte(int(h.SequenceNumber)+k) {
				ok = false

				break
			}
		}
		ch <- got{h.SequenceNumber, len(payload), ok}

		return len(payload), nil
	}))
	buf := make([]byte, maxSize)
	for size := 0; size <= maxSize; size++ {
		for k := 0; k < size; k++ {
			buf[k] = byte(size + k)
		}
		if _, err := p.Write(&rtp.Header{Version: 2, SSRC: 9, SequenceNumber: uint16(size)}, buf[:size], nil); err != nil {
			t.Fatalf("BOUNDED-FAIL size=%d: Write failed: %v", size, err)
		}
		// the caller reuses its buffer immediately
		for k := 0; k < size; k++ {
			buf[k] = 0xEE
		}
		// every 500th packet is followed by one whose SSRC has no registered stream (an RTX / FEC SSRC written through
		// the same pacer): it is dropped, and must not disturb anything that follows
		if size%500 == 0 {
			if _, err := p.Write(&rtp.Header{Version: 2, SSRC: 77, SequenceNumber: uint16(size)}, buf[:size], nil); err != nil {
				t.Fatalf("BOUNDED-FAIL size=%d: Write for an unregistered SSRC failed: %v", size, err)
			}
		}
	}
	deadline := time.After(120 * time.Second)
	for size := 0; size <= maxSize; size++ {
		select {
		case g := <-ch:
			if int(g.seq) != size || g.size != size || !g.ok {
				t.Fatalf("BOUNDED-FAIL size=%d: forwarded packet has sequence number %d, %d bytes, intact=%v", size, g.seq, g.size, g.ok)
			}
		case <-deadline:
			t.Fatalf("BOUNDED-FAIL size=%d: not forwarded within 120 s", size)
		}
	}
	select {
	case g := <-ch:
		t.Fatalf("BOUNDED-FAIL: extra packet forwarded (sequence number %d)", g.seq)
	case <-time.After(50 * time.Millisecond):
	}
	// the pacer keeps working: a stream bound afterwards is served (a lock left held by the drop path would block here)
	late := make(chan int, 1)
	bound := make(chan struct{})
	go func() {
		p.AddStream(10, interceptor.RTPWriterFunc(func(_ *rtp.Header, payload []byte, _ interceptor.Attributes) (int, error) {
			late <- len(payload)

			return len(payload), nil
		}))
		close(bound)
	}()
	select {
	case <-bound:
	case <-time.After(20 * time.Second):
		t.Fatalf("BOUNDED-FAIL: AddStream blocked after packets with an unregistered SSRC had been dropped")
	}
	if _, err := p.Write(&rtp.Header{Version: 2, SSRC: 10, SequenceNumber: 1}, buf[:7], nil); err != nil {
		t.Fatalf("BOUNDED-FAIL: Write to the late stream failed: %v", err)
	}
	select {
	case n := <-late:
		if n != 7 {
			t.Fatalf("BOUNDED-FAIL: late stream received %d bytes, want 7", n)
		}
	case <-time.After(20 * time.Second):
		t.Fatalf("BOUNDED-FAIL: packet of a stream bound after the drops was not forwarded")
	}
	fmt.Printf("BOUNDED-OK packets=%d sizes=0..%d unregistered=%d\n", maxSize+1, maxSize, maxSize/500+1)
}
