// Bounded stand-in (labelled "bounded", never counted as proved) for the part of the GCC leaky-bucket pacer that runs in
// its own goroutine and is outside the deductive subset: one packet of EVERY payload size from 0 to 4000 bytes is
// written to a real pacer; each must reach the stream's writer exactly once, in order, with the bytes it had when it
// was accepted, and nothing may panic (a panic in the pacing goroutine fails the test binary).
package gcc

import (
	"fmt"
	"testing"
	"time"

	"github.com/pion/interceptor"
	"github.com/pion/rtp"
)

func TestBoundedPacerSizes(t *testing.T) {
	const maxSize = 4000
	p := NewLeakyBucketPacer(2_000_000_000)
	defer p.Close() //nolint:errcheck
	type got struct {
		seq  uint16
		size int
		ok   bool
	}
	ch := make(chan got, maxSize+1)
	p.AddStream(9, interceptor.RTPWriterFunc(func(h *rtp.Header, payload []byte, _ interceptor.Attributes) (int, error) {
		ok := true
		for k, b := range payload {
			if b != byte(int(h.SequenceNumber)+k) {
				ok = false

				break
			}
		}
		ch <- got{h.SequenceNumber, len(payload), ok}

		return len(payload), nil
	}))
	buf := make([]byte, maxSize)
	for size := 0; size <= maxSize; size++ {
		for k := 0; k < size; k++ {
			buf[k] = byte(size + k)
		}
		if _, err := p.Write(&rtp.Header{Version: 2, SSRC: 9, SequenceNumber: uint16(size)}, buf[:size], nil); err != nil {
			t.Fatalf("BOUNDED-FAIL size=%d: Write failed: %v", size, err)
		}
		// the caller reuses its buffer immediately
		for k := 0; k < size; k++ {
			buf[k] = 0xEE
		}
	}
	deadline := time.After(120 * time.Second)
	for size := 0; size <= maxSize; size++ {
		select {
		case g := <-ch:
			if int(g.seq) != size || g.size != size || !g.ok {
				t.Fatalf("BOUNDED-FAIL size=%d: forwarded packet has sequence number %d, %d bytes, intact=%v", size, g.seq, g.size, g.ok)
			}
		case <-deadline:
			t.Fatalf("BOUNDED-FAIL size=%d: not forwarded within 120 s", size)
		}
	}
	select {
	case g := <-ch:
		t.Fatalf("BOUNDED-FAIL: extra packet forwarded (sequence number %d)", g.seq)
	case <-time.After(50 * time.Millisecond):
	}
	fmt.Printf("BOUNDED-OK packets=%d sizes=0..%d\n", maxSize+1, maxSize)
}
