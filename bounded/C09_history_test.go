// Bounded stand-in for the part of property C09 that the contracts do not reach: the LRU send history of the
// feedback adapter (container/list + map). Labelled "bounded", never counted as proved.
// Every sequence of up to maxOps add/get operations over a small key space (2 SSRCs x 3 sequence numbers) on a
// history of capacity 2 is run on the real feedbackHistory and compared with a plain LRU model: get returns exactly the
// most recently added acknowledgement for that (ssrc, sequence number) if it is among the `size` most recently added
// or refreshed keys, and nothing otherwise.
package cc

import (
	"fmt"
	"testing"
)

const boundedHistMaxOps = 6

type bhOp struct {
	add  bool
	ssrc uint32
	seq  uint16
}

func (o bhOp) String() string {
	if o.add {
		return fmt.Sprintf("add(%d,%d)", o.ssrc, o.seq)
	}

	return fmt.Sprintf("get(%d,%d)", o.ssrc, o.seq)
}

func bhRun(seq []bhOp) string {
	const size = 2
	h := newFeedbackHistory(size)
	type key struct {
		ssrc uint32
		seq  uint16
	}
	var order []key // least recently added/refreshed first
	vals := map[key]int{}
	for step, op := range seq {
		k := key{op.ssrc, op.seq}
		if op.add {
			h.add(Acknowledgment{SSRC: op.ssrc, SequenceNumber: op.seq, Size: step + 1})
			for i, o := range order {
				if o == k {
					order = append(order[:i], order[i+1:]...)

					break
				}
			}
			order = append(order, k)
			vals[k] = step + 1
			if len(order) > size {
				delete(vals, order[0])
				order = order[1:]
			}

			continue
		}
		got, ok := h.get(feedbackHistoryKey{ssrc: op.ssrc, sequenceNumber: op.seq})
		want, present := vals[k]
		if ok != present {
			return fmt.Sprintf("step %d %v: found=%v, want %v", step, op, ok, present)
		}
		if ok && (got.Size != want || got.SSRC != op.ssrc || got.SequenceNumber != op.seq) {
			return fmt.Sprintf("step %d %v: got %+v, want the acknowledgement added with Size %d", step, op, got, want)
		}
	}

	return ""
}

func TestBoundedFeedbackHistory(t *testing.T) {
	var ops []bhOp
	for _, ssrc := range []uint32{0, 0xAA} {
		for _, sn := range []uint16{0, 7, 65535} {
			ops = append(ops, bhOp{true, ssrc, sn}, bhOp{false, ssrc, sn})
		}
	}
	count := 0
	seq := make([]bhOp, 0, boundedHistMaxOps)
	var rec func(depth, limit int) bool
	rec = func(depth, limit int) bool {
		if depth == limit {
			count++
			if msg := bhRun(seq); msg != "" {
				t.Errorf("BOUNDED-FAIL sequence=%v: %s", seq, msg)

				return false
			}

			return true
		}
		for _, op := range ops {
			seq = append(seq, op)
			ok := rec(depth+1, limit)
			seq = seq[:len(seq)-1]
			if !ok {
				return false
			}
		}

		return true
	}
	for limit := 1; limit <= boundedHistMaxOps; limit++ {
		if !rec(0, limit) {
			return
		}
	}
	fmt.Printf("BOUNDED-OK sequences=%d max_ops=%d keys=6 capacity=2\n", count, boundedHistMaxOps)
}
