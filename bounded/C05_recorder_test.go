// Bounded stand-in for the Recorder clauses of property C05 that the contracts do not reach (BuildFeedbackPacket /
// maybeBuildFeedbackPacket). Labelled "bounded", never counted as proved.
// Every sequence of up to maxOps operations - Record(seq, +dt) with seq in {65533..65535, 0..2} and dt in
// {0, 1 ms, 70 ms}, or BuildFeedbackPacket - is run on the real Recorder; each build is decoded and compared with what
// was recorded: statuses marked received carry an arrival within 125 us of the first recorded arrival of that number,
// numbers marked not received were never recorded, every packet recorded since the previous build is reported, the
// packets of one build cover consecutive ranges, and the feedback packet counter increases by one per packet.
// Each run is primed with Record(65000), Build so that the numbers around the wrap are not at the very start of the
// stream. (All runs stay far below the 500 ms history, so nothing may be culled.)
package twcc

import (
	"fmt"
	"testing"

	"github.com/pion/rtcp"
)

const boundedRecMaxOps = 5

type brOp struct {
	build bool
	seq   uint16
	dt    int64
}

func (o brOp) String() string {
	if o.build {
		return "Build"
	}

	return fmt.Sprintf("Record(%d,+%dus)", o.seq, o.dt)
}

type brStatus struct {
	seq      uint16
	received bool
	arrival  int64
}

func brDecode(fb *rtcp.TransportLayerCC) ([]brStatus, string) {
	var symbols []uint16
	for _, c := range fb.PacketChunks {
		switch ch := c.(type) {
		case *rtcp.RunLengthChunk:
			for i := uint16(0); i < ch.RunLength; i++ {
				symbols = append(symbols, ch.PacketStatusSymbol)
			}
		case *rtcp.StatusVectorChunk:
			symbols = append(symbols, ch.SymbolList...)
		default:
			return nil, "unknown chunk type"
		}
	}
	if len(symbols) < int(fb.PacketStatusCount) {
		return nil, fmt.Sprintf("%d symbols for status count %d", len(symbols), fb.PacketStatusCount)
	}
	symbols = symbols[:fb.PacketStatusCount]
	ts := int64(fb.ReferenceTime) * 64000
	di := 0
	var out []brStatus
	for i, s := range symbols {
		st := brStatus{seq: fb.BaseSequenceNumber + uint16(i)}
		if s == rtcp.TypeTCCPacketReceivedSmallDelta || s == rtcp.TypeTCCPacketReceivedLargeDelta {
			if di >= len(fb.RecvDeltas) {
				return nil, "fewer deltas than received statuses"
			}
			ts += fb.RecvDeltas[di].Delta
			di++
			st.received, st.arrival = true, ts
		} else if s != rtcp.TypeTCCPacketNotReceived {
			return nil, fmt.Sprintf("unexpected symbol %d", s)
		}
		out = append(out, st)
	}
	if di != len(fb.RecvDeltas) {
		return nil, fmt.Sprintf("%d deltas for %d received statuses", len(fb.RecvDeltas), di)
	}

	return out, ""
}

func brRun(seq []brOp) string {
	r := NewRecorder(5000)
	now := int64(1_000_000)
	first := map[uint16]int64{}   // first recorded arrival per number
	all := map[uint16][]int64{}  // every recorded arrival per number
	pending := map[uint16]bool{} // recorded since the previous build
	nextCount := -1
	// prime the stream away from the unwrapper's floor (a stream cannot go below its very first numbers): one packet,
	// one feedback; the enumerated operations follow
	seq = append([]brOp{{false, 65000, 0}, {build: true}}, seq...)
	for step, op := range seq {
		if !op.build {
			now += op.dt
			r.Record(1, op.seq, now)
			all[op.seq] = append(all[op.seq], now)
			if _, ok := first[op.seq]; !ok {
				first[op.seq] = now
				pending[op.seq] = true
			}

			continue
		}
		pkts := r.BuildFeedbackPacket()
		reported := map[uint16]bool{}
		var prevEnd uint16
		for k, p := range pkts {
			fb, ok := p.(*rtcp.TransportLayerCC)
			if !ok {
				return fmt.Sprintf("step %d: packet %d is not a TransportLayerCC", step, k)
			}
			if nextCount >= 0 && int(fb.FbPktCount) != nextCount%256 {
				return fmt.Sprintf("step %d: feedback packet count %d, want %d", step, fb.FbPktCount, nextCount%256)
			}
			nextCount = int(fb.FbPktCount) + 1
			sts, msg := brDecode(fb)
			if msg != "" {
				return fmt.Sprintf("step %d: packet %d: %s", step, k, msg)
			}
			if k > 0 && fb.BaseSequenceNumber != prevEnd {
				return fmt.Sprintf("step %d: packet %d starts at %d, previous one ended before %d", step, k, fb.BaseSequenceNumber, prevEnd)
			}
			prevEnd = fb.BaseSequenceNumber + fb.PacketStatusCount
			for _, st := range sts {
				at, recorded := first[st.seq]
				if st.received {
					if !recorded {
						return fmt.Sprintf("step %d: %d reported received but never recorded", step, st.seq)
					}
					if d := st.arrival - at; d > 125 || d < -125 {
						// "the first one still within the 500 ms history": a later arrival of the same number counts
						// once the first one is more than 500 ms older than it
						later := false
						for _, a := range all[st.seq] {
							if e := st.arrival - a; e <= 125 && e >= -125 && a-at > 500_000 {
								later = true
							}
						}
						if !later {
							return fmt.Sprintf("step %d: %d reported at %d us, recorded at %d us", step, st.seq, st.arrival, at)
						}
					}
					reported[st.seq] = true
				} else if recorded {
					// an arrival that has left the 500 ms history is no longer known to the recorder
					inHistory := false
					for _, a := range all[st.seq] {
						if now-a <= 500_000 {
							inHistory = true
						}
					}
					if inHistory {
						return fmt.Sprintf("step %d: %d reported not received but it was recorded at %d us", step, st.seq, at)
					}
				}
			}
		}
		for s := range pending {
			if !reported[s] {
				return fmt.Sprintf("step %d: %d was recorded since the previous feedback but is not reported", step, s)
			}
		}
		pending = map[uint16]bool{}
	}

	return ""
}

func TestBoundedRecorder(t *testing.T) {
	var ops []brOp
	for _, s := range []uint16{65533, 65534, 65535, 0, 1, 2} {
		for _, dt := range []int64{0, 1000, 70000, 9000000} { // 9 s: the delta no longer fits 16 bits, so the build emits a second packet
			ops = append(ops, brOp{false, s, dt})
		}
	}
	ops = append(ops, brOp{build: true})
	count := 0
	seq := make([]brOp, 0, boundedRecMaxOps)
	var rec func(depth, limit int) bool
	rec = func(depth, limit int) bool {
		if depth == limit {
			if !seq[len(seq)-1].build {
				return true // only sequences ending in a build are checked (shorter ones are prefixes)
			}
			count++
			if msg := brRun(seq); msg != "" {
				t.Errorf("BOUNDED-FAIL sequence=%v: %s", seq, msg)

				return false
			}

			return true
		}
		for _, op := range ops {
			seq = append(seq, op)
			ok := rec(depth+1, limit)
			seq = seq[:len(seq)-1]
			if !ok {
				return false
			}
		}

		return true
	}
	for limit := 1; limit <= boundedRecMaxOps; limit++ {
		if !rec(0, limit) {
			return
		}
	}
	fmt.Printf("BOUNDED-OK sequences=%d max_ops=%d\n", count, boundedRecMaxOps)
}
