// Bounded stand-in for the NTP clauses of property C20 (floating-point code, outside the deductive subset).
// Labelled "bounded", never counted as proved. For 2000 wall-clock seconds spread over the years 2024-2035 it checks
// every instant within 3 microseconds of the whole second (1 ns steps) and 1000 evenly spaced instants inside the
// second: ToNTP is monotone non-decreasing over the sorted instants, ToTime(ToNTP(t)) is within one microsecond of t,
// and the 32-bit middle form round-trips to within 1/65536 s given the instant itself or the start, middle or end of
// its 65536-second window as reference.
package ntp

import (
	"fmt"
	"testing"
	"time"
)

func TestBoundedNTP(t *testing.T) {
	base := time.Date(2024, 1, 1, 0, 0, 0, 0, time.UTC)
	count := 0
	fail := func(format string, args ...any) bool {
		t.Errorf("BOUNDED-FAIL "+format, args...)

		return false
	}
	check := func(sec time.Time) bool {
		var prev uint64
		first := true
		one := func(ti time.Time) bool {
			count++
			n := ToNTP(ti)
			if !first && n < prev {
				return fail("instant=%s (UnixNano %d): ToNTP decreases: %#x after %#x", ti.Format(time.RFC3339Nano), ti.UnixNano(), n, prev)
			}
			first, prev = false, n
			back := ToTime(n)
			if d := back.Sub(ti); d > time.Microsecond || d < -time.Microsecond {
				return fail("instant=%s (UnixNano %d): ToTime(ToNTP(t)) is off by %v", ti.Format(time.RFC3339Nano), ti.UnixNano(), d)
			}
			back32 := ToTime32(ToNTP32(ti), ti)
			if d := back32.Sub(ti); d > time.Second/65536+time.Microsecond || d < -(time.Second/65536+time.Microsecond) {
				return fail("instant=%s (UnixNano %d): 32-bit round trip is off by %v", ti.Format(time.RFC3339Nano), ti.UnixNano(), d)
			}

			return true
		}
		// the 32-bit middle form with references elsewhere in the same 65536-second NTP window
		{
			secs := uint64(sec.Unix()) + 2208988800
			winStart := sec.Add(-time.Duration(secs%65536) * time.Second)
			for _, ref := range []time.Time{winStart, winStart.Add(32767 * time.Second), winStart.Add(32768 * time.Second), winStart.Add(65535 * time.Second)} {
				count++
				back32 := ToTime32(ToNTP32(sec), ref)
				if d := back32.Sub(sec); d > time.Second/65536+time.Microsecond || d < -(time.Second/65536+time.Microsecond) {
					return fail("instant=%s reference=%s: 32-bit round trip is off by %v", sec.Format(time.RFC3339Nano), ref.Format(time.RFC3339Nano), d)
				}
			}
		}
		// just before the second, the second itself, just after (1 ns steps)
		for off := -3000; off <= 3000; off++ {
			if !one(sec.Add(time.Duration(off))) {
				return false
			}
		}
		for k := 1; k <= 1000; k++ {
			if !one(sec.Add(time.Duration(k) * 999_983 * time.Nanosecond)) {
				return false
			}
		}

		return true
	}
	for k := 0; k < 2000; k++ {
		if !check(base.Add(time.Duration(k) * 173_000 * time.Second)) {
			return
		}
	}
	fmt.Printf("BOUNDED-OK instants=%d seconds=2000 span=2024..2035\n", count)
}
