// Bounded stand-in for the trusted PriorityQueue contracts of property C18 (labelled "bounded", never counted as proved).
// Injected into pkg/jitterbuffer by `govc check C18` through `go test -overlay`; it enumerates EVERY sequence of up to
// maxOps operations over nPrio priorities on the real linked-list queue and compares each result with the abstract
// view Q the jitter buffer proofs assume:
//   Q[p] = the packet a Find / PopAt for priority p returns (the most recently pushed one still queued under p);
//   Push stores and increments the length; PopAt/Find fail exactly when Q[p] is empty; Clear empties everything.
package jitterbuffer

import (
	"fmt"
	"testing"

	"github.com/pion/rtp"
)

const (
	boundedQueueMaxOps = 6
	boundedQueuePrios  = 3
)

type bqOp struct {
	kind int // 0 push, 1 popAt, 2 find, 3 clear
	prio uint16
}

func (o bqOp) String() string {
	switch o.kind {
	case 0:
		return fmt.Sprintf("Push(%d)", o.prio)
	case 1:
		return fmt.Sprintf("PopAt(%d)", o.prio)
	case 2:
		return fmt.Sprintf("Find(%d)", o.prio)
	default:
		return "Clear()"
	}
}

// runs one sequence on a fresh queue; returns "" or a description of the first disagreement
func bqRun(seq []bqOp) string {
	q := NewQueue()
	model := map[uint16][]*rtp.Packet{} // newest last
	total := 0
	for step, op := range seq {
		switch op.kind {
		case 0:
			pkt := &rtp.Packet{Header: rtp.Header{SequenceNumber: op.prio, Timestamp: uint32(step)}}
			q.Push(pkt, op.prio)
			model[op.prio] = append(model[op.prio], pkt)
			total++
		case 1:
			got, err := q.PopAt(op.prio)
			st := model[op.prio]
			if len(st) == 0 {
				if got != nil || err == nil {
					return fmt.Sprintf("step %d %v: nothing queued under %d but got %v, %v", step, op, op.prio, got, err)
				}
			} else {
				want := st[len(st)-1]
				if got != want || err != nil {
					return fmt.Sprintf("step %d %v: got %p (%v), want the packet pushed at step %d", step, op, got, err, want.Timestamp)
				}
				model[op.prio] = st[:len(st)-1]
				total--
			}
		case 2:
			got, err := q.Find(op.prio)
			st := model[op.prio]
			if len(st) == 0 {
				if got != nil || err == nil {
					return fmt.Sprintf("step %d %v: nothing queued under %d but got %v, %v", step, op, op.prio, got, err)
				}
			} else if want := st[len(st)-1]; got != want || err != nil {
				return fmt.Sprintf("step %d %v: got %p (%v), want the packet pushed at step %d", step, op, got, err, want.Timestamp)
			}
		default:
			q.Clear()
			model = map[uint16][]*rtp.Packet{}
			total = 0
		}
		if int(q.Length()) != total {
			return fmt.Sprintf("step %d %v: Length() = %d, want %d", step, op, q.Length(), total)
		}
	}

	return ""
}

func TestBoundedQueueContract(t *testing.T) {
	var ops []bqOp
	for p := uint16(0); p < boundedQueuePrios; p++ {
		// priorities chosen to include the extremes of the 16-bit range
		prio := []uint16{0, 7, 65535}[p]
		ops = append(ops, bqOp{0, prio}, bqOp{1, prio}, bqOp{2, prio})
	}
	ops = append(ops, bqOp{3, 0})
	count := 0
	seq := make([]bqOp, 0, boundedQueueMaxOps)
	var rec func(depth, limit int) bool
	rec = func(depth, limit int) bool {
		if depth == limit {
			count++
			if msg := bqRun(seq); msg != "" {
				t.Errorf("BOUNDED-FAIL sequence=%v: %s", seq, msg)

				return false
			}

			return true
		}
		for _, op := range ops {
			seq = append(seq, op)
			ok := rec(depth+1, limit)
			seq = seq[:len(seq)-1]
			if !ok {
				return false
			}
		}

		return true
	}
	// shortest sequences first, so that a reported failure is a shortest one
	for limit := 1; limit <= boundedQueueMaxOps; limit++ {
		if !rec(0, limit) {
			return
		}
	}
	fmt.Printf("BOUNDED-OK sequences=%d max_ops=%d priorities=%d\n", count, boundedQueueMaxOps, boundedQueuePrios)
}
