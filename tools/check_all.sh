#!/bin/bash
# runs every claimed check (quick tier) on /repo and prints one summary line each; exit 1 if any violation
cd /verif
rc=0
for id in $(python3 -c "import json;print(' '.join(c['property_id'] for c in json.load(open('MANIFEST.json'))['checks']))"); do
  out=$(./bin/govc check $id ${1:-} 2>&1)
  echo "$out" | tail -1
  if echo "$out" | grep -q "^VIOLATION"; then rc=1; echo "$out" | grep "^VIOLATION" | head -5; fi
done
exit $rc
