#!/bin/bash
# usage: run_witness.sh <repo-root> <pkg-rel-dir> <witness_test.go> <run-regex>
set -u
repo=$1; pkg=$2; file=$3; re=$4
ov=$(mktemp /tmp/ov.XXXXXX.json)
printf '{"Replace":{"%s/%s/zz_witness_test.go":"%s"}}' "$repo" "$pkg" "$file" > "$ov"
(cd "$repo" && GOFLAGS=-mod=mod GOPROXY=off go test -overlay "$ov" -vet=off -count=1 -timeout 120s -run "$re" "./$pkg")
rc=$?; rm -f "$ov"; exit $rc
