#!/bin/bash
# usage: regress_seeded.sh <prop ids...> : every seeded change of those properties must still be detected
export GOFLAGS=-mod=mod GOPROXY=off
cd /verif
for id in "$@"; do
  for m in seeded/$id/m*; do
    S=/tmp/regr_$$; rm -rf $S; mkdir -p $S; rsync -a --exclude .git /repo/ $S/
    if ! (cd $S && patch -p1 -s < /verif/$m/patch.diff >/dev/null 2>&1); then echo "$m PATCH-FAILED"; rm -rf $S; continue; fi
    out=$(GOVC_REPO=$S ./bin/govc check $id --no-evidence 2>&1)
    n=$(echo "$out" | grep -c "^VIOLATION")
    det=$(python3 -c "import json;print(len(json.load(open('$m/meta.json')).get('detected_by',[])))" 2>/dev/null)
    echo "$m violations=$n recorded_detected_by=$det $(echo "$out" | tail -1 | cut -c1-80)"
    rm -rf $S
  done
done
