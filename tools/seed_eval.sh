#!/bin/bash
# usage: seed_eval.sh <mutant-dir (patch.diff, demo_test.go)> <demo-pkg-rel-dir> <prop-id>... 
# Confirms the seeded change (compiles, suite of affected pkgs passes, demo fails with / passes without), then runs the checks.
set -u
export GOFLAGS=-mod=mod GOPROXY=off
m=$1; pkg=$2; shift 2
S=/tmp/seedrun_$$
rm -rf $S; mkdir -p $S; rsync -a --exclude .git /repo/ $S/
cd $S
# demo on unmodified code
cp $m/demo_test.go $S/$pkg/zz_demo_test.go
base=$(go test -count=1 -vet=off -timeout 300s ./$pkg 2>&1 | tail -1)
echo "demo on unmodified: $base"
if ! patch -p1 -s < $m/patch.diff; then echo "PATCH FAILED"; rm -rf $S; exit 3; fi
if ! go build ./... ; then echo "BUILD FAILED"; rm -rf $S; exit 3; fi
with=$(go test -count=1 -vet=off -timeout 300s ./$pkg 2>&1 | tail -1)
echo "demo with change:   $with"
rm $S/$pkg/zz_demo_test.go
if [ "${SKIP_SUITE:-0}" != 1 ]; then
  suite=$(go test -count=1 -vet=off -timeout 20m ./... 2>&1 | grep -v "^ok\|no test files" | head -5)
  echo "suite with change (non-ok lines): ${suite:-<all ok>}"
fi
cd /verif
for id in "$@"; do
  GOVC_REPO=$S ./bin/govc check $id --no-evidence 2>&1 | grep -E "^VIOLATION|^C[0-9]+ \[|KNOWN" | cut -c1-260
done
rm -rf $S
