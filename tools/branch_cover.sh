#!/bin/bash
# Diagnostic (not a registered check): for every function under contract, is each side of each branch satisfiable
# together with everything assumed up to it? A definitely unsatisfiable side is dead code or a vacuous path
# (a contradiction among assumptions), and every obligation proved below it holds vacuously. Review the list by hand.
cd /verif
python3 - <<'PY' > /tmp/bc_funcs.txt
import json,glob
seen=[]
for p in sorted(glob.glob('props/*.json')):
    for f in json.load(open(p))['functions']:
        if f not in seen: seen.append(f)
print('\n'.join(seen))
PY
while read -r f; do
  GOVC_BRANCHCOVER=1 ./bin/govc func -v "$f" 2>&1 | grep "^  unsat.*#cover:" | sed 's/ *{.*//'
done < /tmp/bc_funcs.txt
