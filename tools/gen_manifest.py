#!/usr/bin/env python3
"""Regenerates MANIFEST.json from props/*.json and tools/manifest_meta.json."""
import json, os, subprocess, glob
root = os.path.dirname(os.path.dirname(os.path.abspath(__file__)))
meta = json.load(open(os.path.join(root, "tools", "manifest_meta.json")))
props = [json.loads(l) for l in open(os.path.join(root, "properties.jsonl"))]
claimed = {}
for f in sorted(glob.glob(os.path.join(root, "props", "C*.json"))):
    p = json.load(open(f))
    claimed[p["id"]] = p
commits = subprocess.run(["git", "-C", "/repo", "log", "--format=%H %s"], capture_output=True, text=True).stdout.splitlines()
hooks = [c.split()[0] for c in commits if c.split(" ", 1)[1].startswith("verif:")]
checks, na = [], []
for p in props:
    pid = p["id"]
    m = meta["props"].get(pid, {})
    if pid in claimed and not m.get("not_applicable"):
        c = claimed[pid]
        checks.append({
            "property_id": pid,
            "quick_cmd": f"./bin/govc check {pid} --tier quick",
            "thorough_cmd": f"./bin/govc check {pid} --tier thorough",
            "evidence_file": f"/verif/evidence/{pid}.json",
            "replay_cmd_template": "./bin/govc replay {path}",
            "engine": "govc",
            "level_claimed": {"category": c.get("level", "proof"), "text": m.get("level_text", c.get("explanation", "")), "design_ref": m.get("design_ref", "DESIGN.md §8 " + pid)},
            "level_note": m.get("level_note", "; ".join(c.get("assumptions", []) + ["not covered: " + x for x in c.get("not_covered", [])])),
            "technique": m.get("technique", "contract-based deductive verification: WP/VC generation over go/ssa of the real code, discharged by z3/cvc5"),
        })
    else:
        na.append({"property_id": pid, "reason": m.get("not_applicable", "no contract within reach yet: functions outside the implemented subset (see DESIGN.md)")})
man = {
    "version": 1,
    "setup_cmd": "cd /verif/govc && GOFLAGS=-mod=mod GOPROXY=off go build -o /verif/bin/govc .",
    "hooks": {"guard": "verif", "enable": "go build -tags verif (contracts are comment-only files zz_contracts_verif.go behind //go:build verif; govc loads /repo with -tags=verif)",
              "baseline_off_cmd": "cd /repo && GOFLAGS=-mod=mod GOPROXY=off go test -vet=off -count=1 -timeout 25m ./...",
              "source_commits": hooks, "add_only": True},
    "engines": [{"name": "govc", "path": "/verif/govc", "serves_properties": [c["property_id"] for c in checks],
                 "kind_free_text": "deductive verifier for a Go subset: VC generation by symbolic execution of go/ssa, contracts in //@ comment files, SMT portfolio (z3 5.1, z3 4.8, cvc5), counterexample replay via go test -overlay"}],
    "checks": checks,
    "not_applicable": na,
    "notes": meta.get("notes", ""),
}
json.dump(man, open(os.path.join(root, "MANIFEST.json"), "w"), indent=1)
print("checks:", [c["property_id"] for c in checks], "n/a:", len(na))
