#!/usr/bin/env python3
# Regenerates the generated tables of DESIGN.md (fix table, findings, seeded changes) from known_findings.json and seeded/*/*/meta.json.
import json, glob
t = open('/verif/tools/DESIGN.template.md').read()
kf = json.load(open('/verif/known_findings.json')); ents = kf['entries'] if isinstance(kf, dict) else kf
fixed = [e for e in ents if e['kind'] == 'fixed']; finds = [e for e in ents if e['kind'] == 'finding']
fixtab = '| property | commit | what failed | witness |\n|---|---|---|---|\n' + '\n'.join(
    '| %s | `%s` | %s | `%s` |' % (e['property'], e.get('commit', ''), e['what'][:260].replace('|', '/'), e.get('witness', '').split(':')[-1]) for e in fixed)
seen = set(); rows = []
for e in finds:
    if e['what'] in seen: continue
    seen.add(e['what']); rows.append('| %s | %s | `%s` |' % (e['property'], e['what'][:300].replace('|', '/'), e.get('case', '')))
findtab = '| property | what fails | pinned case |\n|---|---|---|\n' + '\n'.join(rows)
srows = []; nd = 0; n = 0
for p in sorted(glob.glob('/verif/seeded/*/*/meta.json')):
    d = json.load(open(p)); parts = p.split('/'); n += 1
    det = '; '.join(d.get('detected_by', []))
    if det: nd += 1
    hist = (' *(' + d['history'][:160] + ')*') if d.get('history') else ''
    srows.append('| %s/%s | %s | %s |' % (parts[3], parts[4], d.get('breaks', '').replace('|', '/')[:140],
        ((det.replace('|', '/')[:220] + hist) if det else '**missed** - ' + d.get('missed_because', '')[:260])))
seeded = ('%d of %d evaluated changes are detected (two rounds of fresh sub-agents; round 2 was told the round-1 changes so as to differ). Each is kept under '
          '`/verif/seeded/<id>/<m>/` (`patch.diff`, `demo_test.go`, `notes.md`, `meta.json`); `tools/seed_eval.sh` confirms "demo passes without / fails with" on a '
          'scratch copy and runs the check there (`GOVC_REPO`). Where a change was first missed and later detected the history is in its meta.json.\n\n'
          '| change | breaks | detected by |\n|---|---|---|\n' % (nd, n)) + '\n'.join(srows)
t = t.replace('<!-- FIXTAB -->', fixtab).replace('<!-- FINDTAB -->', findtab).replace('<!-- SEEDED -->', seeded)
open('/verif/DESIGN.md', 'w').write(t)
print('DESIGN.md regenerated: %d fixes, %d findings, %d/%d seeded detected' % (len(fixed), len(rows), nd, n))
