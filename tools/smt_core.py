import subprocess,sys
f=sys.argv[1]
L=open(f).read().split('\n')
pre=[l for l in L if not l.startswith('(assert') and not l.startswith('(check-sat') and not l.startswith('(get-')]
asr=[l for l in L if l.startswith('(assert')]
def chk(a):
    open('/tmp/t.smt2','w').write('\n'.join(pre+a+['(check-sat)']))
    return subprocess.run(['z3-new','-T:10','/tmp/t.smt2'],capture_output=True,text=True).stdout.strip()
print(chk(asr))
cur=asr[:]
i=0
while i<len(cur):
    t=cur[:i]+cur[i+1:]
    if chk(t)=='unsat': cur=t
    else: i+=1
import re
defs={}
for l in pre:
    m=re.match(r'\(define-fun (\?\d+) \(\) \S+( \S+\))? (.*)\)$',l)
    if m: defs[m.group(1)]=l
for c in cur:
    print(c[:400])
    for d in re.findall(r'\?\d+',c): print('    ',defs.get(d,'')[:300])
