// Witness for C01 (NACK responder transparency): an application packet the packet factory refuses to copy
// (Padding set, PaddingSize 0, last payload byte larger than the payload, RTX negotiated) must still reach the
// next writer exactly once, unchanged. Before the fix the responder returned the factory's error and dropped it.
// Copy to pkg/nack/ and run: go test -run TestWitnessC01 ./pkg/nack/
package nack

import (
	"bytes"
	"testing"

	"github.com/pion/interceptor"
	"github.com/pion/rtp"
)

func TestWitnessC01_ResponderForwardsPacketItCannotBuffer(t *testing.T) {
	factory, err := NewResponderInterceptor()
	if err != nil {
		t.Fatal(err)
	}
	responder, err := factory.NewInterceptor("")
	if err != nil {
		t.Fatal(err)
	}
	defer responder.Close() //nolint:errcheck
	info := &interceptor.StreamInfo{
		SSRC: 1, SSRCRetransmission: 2, PayloadType: 96, PayloadTypeRetransmission: 97,
		RTCPFeedback: []interceptor.RTCPFeedback{{Type: "nack"}},
	}
	var got [][]byte
	writer := responder.BindLocalStream(info, interceptor.RTPWriterFunc(
		func(_ *rtp.Header, payload []byte, _ interceptor.Attributes) (int, error) {
			got = append(got, append([]byte(nil), payload...))

			return len(payload), nil
		},
	))
	payloads := [][]byte{
		{1, 2, 3, 4},
		{9, 9, 9, 200}, // last byte (200) claims more padding than the 4-byte payload holds
		make([]byte, 1461), // larger than the factory's buffers
		{5, 6, 7, 8},
	}
	for k, p := range payloads {
		hdr := &rtp.Header{Version: 2, SSRC: 1, PayloadType: 96, SequenceNumber: uint16(10 + k), Padding: k == 1}
		if _, werr := writer.Write(hdr, p, nil); werr != nil {
			t.Errorf("packet %d: Write returned %v although the wrapped writer succeeded", k, werr)
		}
	}
	if len(got) != len(payloads) {
		t.Fatalf("next writer received %d packets, want %d", len(got), len(payloads))
	}
	for k := range payloads {
		if !bytes.Equal(got[k], payloads[k]) {
			t.Errorf("packet %d reached the next writer altered", k)
		}
	}
}
