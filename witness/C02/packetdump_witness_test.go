// Witness for C02 (packetdump): a short RTP packet read into a large buffer that still holds stale bytes.
// Copy to pkg/packetdump/ and run: go test -run TestWitnessC02 ./pkg/packetdump/
package packetdump

import (
	"io"
	"testing"

	"github.com/pion/interceptor"
)

func TestWitnessC02_ShortPacketWithStaleBufferDoesNotPanic(t *testing.T) {
	f, err := NewReceiverInterceptor(RTPWriter(io.Discard), RTCPWriter(io.Discard))
	if err != nil {
		t.Fatal(err)
	}
	i, err := f.NewInterceptor("")
	if err != nil {
		t.Fatal(err)
	}
	defer i.Close() //nolint:errcheck

	// the wrapped reader delivers a 12-byte packet whose first byte announces 15 CSRCs;
	// the rest of the caller's 1500-byte buffer is whatever was there before
	reader := i.BindRemoteStream(&interceptor.StreamInfo{SSRC: 1}, interceptor.RTPReaderFunc(
		func(b []byte, a interceptor.Attributes) (int, interceptor.Attributes, error) {
			for k := range b {
				b[k] = 0x11
			}
			b[0] = 0x8F // V=2, CC=15: the 15 CSRCs would lie beyond the 12 bytes received

			return 12, a, nil
		}))
	defer func() {
		if r := recover(); r != nil {
			t.Fatalf("reader panicked: %v", r)
		}
	}()
	n, _, err := reader.Read(make([]byte, 1500), nil)
	if err == nil && n > 12 {
		t.Fatalf("reported %d bytes for a 12-byte packet", n)
	}
}
