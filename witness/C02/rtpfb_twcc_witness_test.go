package rtpfb

// Witness of the C02 defect repaired by a "fix:" commit on pkg/rtpfb/twcc_receiver.go: a 24-byte TWCC feedback that
// rtcp.Unmarshal accepts (status count 1, run length 100, one delta) made convertTWCC index RecvDeltas out of range.

import (
	"testing"

	"github.com/pion/rtcp"
)

func TestWitnessC02_InconsistentTWCCDoesNotPanic(t *testing.T) {
	raw := []byte{0x8f, 0xcd, 0x00, 0x05, 0, 0, 0, 1, 0, 0, 0, 2, 0x00, 0x01, 0x00, 0x01, 0x00, 0x00, 0x01, 0x00, 0x20, 0x64, 0x04, 0x00}
	pkts, err := rtcp.Unmarshal(raw)
	if err != nil {
		t.Skip("pion/rtcp rejects the packet:", err)
	}
	defer func() {
		if r := recover(); r != nil {
			t.Fatalf("convertTWCC panicked on a packet accepted by rtcp.Unmarshal: %v", r)
		}
	}()
	for _, p := range pkts {
		if fb, ok := p.(*rtcp.TransportLayerCC); ok {
			_ = convertTWCC(fb)
		}
	}
}
