// Witness for C02/C17 (GCC leaky bucket pacer): a payload larger than the pooled 1460-byte buffers.
// Copy to pkg/gcc/ and run: go test -run TestWitnessC02 ./pkg/gcc/
package gcc

import (
	"testing"
	"time"

	"github.com/pion/interceptor"
	"github.com/pion/rtp"
)

func TestWitnessC02_LargePayloadIsForwardedIntact(t *testing.T) {
	p := NewLeakyBucketPacer(10_000_000)
	defer p.Close() //nolint:errcheck
	got := make(chan int, 1)
	p.AddStream(5, interceptor.RTPWriterFunc(func(h *rtp.Header, payload []byte, _ interceptor.Attributes) (int, error) {
		got <- len(payload)

		return len(payload), nil
	}))
	payload := make([]byte, 2000)
	for k := range payload {
		payload[k] = byte(k)
	}
	if _, err := p.Write(&rtp.Header{Version: 2, SSRC: 5}, payload, nil); err != nil {
		t.Fatal(err)
	}
	select {
	case n := <-got:
		if n != 2000 {
			t.Fatalf("forwarded %d bytes of a 2000-byte payload", n)
		}
	case <-time.After(2 * time.Second):
		t.Fatal("packet was not forwarded")
	}
}
