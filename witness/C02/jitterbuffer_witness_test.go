// Witness for C02 (jitter buffer interceptor): the reader must not report more bytes than the packet has.
// Copy to pkg/jitterbuffer/ and run: go test -run TestWitnessC02 ./pkg/jitterbuffer/
package jitterbuffer

import (
	"testing"

	"github.com/pion/interceptor"
	"github.com/pion/rtp"
)

func TestWitnessC02_ReaderReportsPacketLengthNotBufferLength(t *testing.T) {
	f, err := NewInterceptor()
	if err != nil {
		t.Fatal(err)
	}
	i, err := f.NewInterceptor("")
	if err != nil {
		t.Fatal(err)
	}
	defer i.Close() //nolint:errcheck

	seq := uint16(1000)
	reader := i.BindRemoteStream(&interceptor.StreamInfo{SSRC: 7}, interceptor.RTPReaderFunc(
		func(b []byte, a interceptor.Attributes) (int, interceptor.Attributes, error) {
			p := rtp.Packet{Header: rtp.Header{Version: 2, SequenceNumber: seq, SSRC: 7}, Payload: []byte{1, 2, 3, 4}}
			seq++
			n, err := p.MarshalTo(b)

			return n, a, err
		}))
	for k := 0; k < 200; k++ {
		n, _, err := reader.Read(make([]byte, 1500), nil)
		if err != nil {
			continue // still buffering
		}
		if n != 16 {
			t.Fatalf("read %d reported %d bytes for a 16-byte packet", k, n)
		}
	}
}
