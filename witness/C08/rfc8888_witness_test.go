package rfc8888

// Witnesses of the C08 defects repaired by three "fix:" commits in pkg/rfc8888.
// They fail on the original code and pass on the repaired code.

import (
	"testing"
	"time"
)

func TestWitnessC08_OffsetWrapsBeyond64Seconds(t *testing.T) {
	now := time.Unix(1000, 0)
	if got := getArrivalTimeOffset(now, now.Add(-64500*time.Millisecond)); got != 0x1FFE {
		t.Fatalf("offset for a 64.5 s old arrival = %#x, want 0x1ffe", got)
	}
}

func TestWitnessC08_DuplicateOverwritesFirstArrival(t *testing.T) {
	r := NewRecorder()
	t0 := time.Unix(1000, 0)
	r.AddPacket(t0, 1, 10, 0)
	r.AddPacket(t0.Add(500*time.Millisecond), 1, 10, 0) // duplicate, half a second later
	rep := r.BuildReport(t0.Add(time.Second), 1200)
	if got := rep.ReportBlocks[0].MetricBlocks[0].ArrivalTimeOffset; got != 1024 {
		t.Fatalf("arrival time offset %d, want 1024 (one second before the report: the first copy)", got)
	}
}

func TestWitnessC08_PaddingNotBudgeted(t *testing.T) {
	r := NewRecorder()
	t0 := time.Unix(1000, 0)
	for ssrc := uint32(1); ssrc <= 2; ssrc++ {
		for seq := uint16(0); seq < 40; seq++ {
			r.AddPacket(t0, ssrc, seq, 0)
		}
	}
	const maxSize = 12 + 2*8 + 2*2*7 // room for exactly 7 metric blocks per stream without padding
	rep := r.BuildReport(t0.Add(time.Second), maxSize)
	b, err := rep.Marshal()
	if err != nil {
		t.Fatal(err)
	}
	if len(b) > maxSize {
		t.Fatalf("marshalled report is %d bytes, limit %d", len(b), maxSize)
	}
}

// floor(1024 x 7.998 s) = 8189 = 0x1FFD is the largest representable offset and must be reported as such
// (the first saturation fix compared the unrounded value and reported 0x1FFE).
func TestWitnessC08_LargestRepresentableOffset(t *testing.T) {
	base := time.Date(2024, 1, 1, 0, 0, 0, 0, time.UTC)
	if got := getArrivalTimeOffset(base, base.Add(-7998*time.Millisecond)); got != 0x1FFD {
		t.Fatalf("offset of a 7.998 s old packet = %#x, want 0x1ffd", got)
	}
	if got := getArrivalTimeOffset(base, base.Add(-7998500*time.Microsecond)); got != 0x1FFE {
		t.Fatalf("offset of a 7.9985 s old packet = %#x, want 0x1ffe", got)
	}
}
