package flexfec

// Witness of the C14 known finding: the three FlexFEC-03 mask words hold 15+31+63 = 109 bits, but the encoder
// accepts 110 media packets; packet index 109 is XORed into a repair packet whose mask cannot name it, so
// decoding with "all but one of the packets named in its mask" reconstructs garbage. FAILS on the current code.

import (
	"testing"

	"github.com/pion/rtp"
)

func TestWitnessC14_Index109CombinedButNotNamed(t *testing.T) {
	media := make([]rtp.Packet, 110)
	for i := range media {
		media[i] = rtp.Packet{Header: rtp.Header{Version: 2, SequenceNumber: uint16(1000 + i), SSRC: 7}, Payload: []byte{byte(i + 1)}}
	}
	fec := NewFlexEncoder03(96, 99).EncodeFec(media, 1)
	if len(fec) != 1 {
		t.Fatalf("expected one repair packet, got %d", len(fec))
	}
	p := fec[0].Payload
	// count the packets named by the mask words (k bits excluded)
	named := 0
	for _, w := range []struct{ off, n int }{{18, 2}, {20, 4}, {24, 8}} {
		for i := 0; i < w.n; i++ {
			b := p[w.off+i]
			if i == 0 {
				b &= 0x7f
			}
			for ; b != 0; b &= b - 1 {
				named++
			}
		}
	}
	// recover packet 0 from the repair payload and packets 1..named-1 (those the mask names)
	rec := p[32]
	for i := 1; i < named; i++ {
		rec ^= media[i].Payload[0]
	}
	if named != 110 || rec != media[0].Payload[0] {
		t.Fatalf("mask names %d packets but 110 were combined; recovered first payload byte %d, want %d", named, rec, media[0].Payload[0])
	}
}
