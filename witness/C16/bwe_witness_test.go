package gcc

// Witness of the C16 defect repaired by the "fix:" commit on pkg/gcc/send_side_bwe.go: the loss-based controller
// clamps to its own fixed 100 kbit/s .. 100 Mbit/s, so the published target could fall below a configured minimum.

import "testing"

func TestWitnessC16_TargetBelowConfiguredMinimum(t *testing.T) {
	bwe, err := NewSendSideBWE(SendSideBWEInitialBitrate(600_000), SendSideBWEMinBitrate(500_000), SendSideBWEMaxBitrate(2_000_000), SendSideBWEPacer(NewNoOpPacer()))
	if err != nil {
		t.Fatal(err)
	}
	defer bwe.Close() //nolint
	bwe.lossController.bitrate = 120_000 // what sustained loss drives the loss-based estimate to
	bwe.onDelayUpdate(DelayStats{TargetBitrate: 800_000})
	if got := bwe.GetTargetBitrate(); got < 500_000 || got > 2_000_000 {
		t.Fatalf("target bitrate %d outside the configured [500000, 2000000]", got)
	}
}
