// Witness for C13 (FlexFEC interceptor): the caller reuses its payload buffer as soon as Write returns.
// Copy to pkg/flexfec/ and run: go test -run TestWitnessC13 ./pkg/flexfec/
package flexfec

import (
	"bytes"
	"testing"

	"github.com/pion/interceptor"
	"github.com/pion/rtp"
)

func fecOutput(t *testing.T, reuse bool) [][]byte {
	t.Helper()
	f, err := NewFecInterceptor()
	if err != nil {
		t.Fatal(err)
	}
	i, err := f.NewInterceptor("")
	if err != nil {
		t.Fatal(err)
	}
	defer i.Close() //nolint:errcheck
	var fec [][]byte
	info := &interceptor.StreamInfo{SSRC: 1, PayloadTypeForwardErrorCorrection: 100, SSRCForwardErrorCorrection: 2}
	w := i.BindLocalStream(info, interceptor.RTPWriterFunc(func(h *rtp.Header, p []byte, _ interceptor.Attributes) (int, error) {
		if h.SSRC == 2 {
			fec = append(fec, append([]byte(nil), p...))
		}

		return len(p), nil
	}))
	buf := make([]byte, 8)
	for seq := uint16(0); seq < 5; seq++ {
		payload := buf
		if !reuse {
			payload = make([]byte, 8)
		}
		for k := range payload {
			payload[k] = byte(seq*16) + byte(k)
		}
		if _, err := w.Write(&rtp.Header{Version: 2, SSRC: 1, SequenceNumber: seq}, payload, nil); err != nil {
			t.Fatal(err)
		}
	}

	return fec
}

func TestWitnessC13_CallerReusesPayloadBuffer(t *testing.T) {
	want, got := fecOutput(t, false), fecOutput(t, true)
	if len(want) == 0 || len(want) != len(got) {
		t.Fatalf("fec packets: %d vs %d", len(want), len(got))
	}
	for k := range want {
		if !bytes.Equal(want[k], got[k]) {
			t.Fatalf("repair packet %d differs when the caller reuses its payload buffer", k)
		}
	}
}
