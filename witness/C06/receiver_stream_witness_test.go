package report

// Witness of the C06 defect repaired by the "fix:" commit on pkg/report/receiver_stream.go:
// the interarrival jitter used float64(ts) - float64(lastTs), which is not wrap-safe: one packet
// across the 2^32 RTP-timestamp wrap produced |D| ~ 4.29e9 instead of ~0.

import (
	"testing"
	"time"

	"github.com/pion/rtp"
)

func TestWitnessC06_JitterAcrossTimestampWrap(t *testing.T) {
	s := newReceiverStream(1, 90000)
	t0 := time.Unix(1000, 0)
	s.processRTP(t0, &rtp.Header{SequenceNumber: 1, Timestamp: 0xFFFFFFFF - 1499})
	// 1/30 s later, 3000 ticks later at 90 kHz: perfectly on time, timestamp wraps
	s.processRTP(t0.Add(time.Second/30), &rtp.Header{SequenceNumber: 2, Timestamp: 1500})
	if s.jitter > 1 {
		t.Fatalf("jitter after one on-time packet across the timestamp wrap = %v, want ~0", s.jitter)
	}
}
