package jitterbuffer

// Witnesses of the C18 defects repaired by two "fix:" commits on pkg/jitterbuffer/priority_queue.go.
// They fail (or hang until the deadline) on the original code and pass on the repaired code.

import (
	"testing"
	"time"

	"github.com/pion/rtp"
)

func TestWitnessC18_ClearLeavesPacketsReachable(t *testing.T) {
	q := NewQueue()
	q.Push(&rtp.Packet{Header: rtp.Header{SequenceNumber: 7}}, 7)
	q.Clear()
	if p, err := q.Find(7); err == nil || p != nil {
		t.Fatalf("Find after Clear returned a packet buffered before the Clear")
	}
}

func TestWitnessC18_DuplicateOfHeadLinksCycle(t *testing.T) {
	q := NewQueue()
	q.Push(&rtp.Packet{Header: rtp.Header{SequenceNumber: 5}}, 5)
	q.Push(&rtp.Packet{Header: rtp.Header{SequenceNumber: 5}}, 5) // duplicate of the head
	done := make(chan struct{})
	go func() {
		_, _ = q.Find(9) // not buffered: must fail, not spin
		close(done)
	}()
	select {
	case <-done:
	case <-time.After(2 * time.Second):
		t.Fatalf("Find for a missing number does not terminate: the list is cyclic")
	}
}
