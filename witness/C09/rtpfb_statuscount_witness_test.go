package rtpfb

// Witness of the C09 defect repaired by a "fix:" commit on pkg/rtpfb/twcc_receiver.go: statuses beyond
// PacketStatusCount (the padding of the last status-vector chunk) were reported as acknowledgements.

import (
	"testing"

	"github.com/pion/rtcp"
)

func TestWitnessC09_NothingBeyondStatusCount(t *testing.T) {
	fb := &rtcp.TransportLayerCC{
		BaseSequenceNumber: 10, PacketStatusCount: 3,
		PacketChunks: []rtcp.PacketStatusChunk{&rtcp.StatusVectorChunk{SymbolSize: rtcp.TypeTCCSymbolSizeTwoBit,
			SymbolList: []uint16{1, 0, 1, 0, 0, 0, 0}}},
		RecvDeltas: []*rtcp.RecvDelta{{Type: 1, Delta: 250}, {Type: 1, Delta: 250}},
	}
	acks := convertTWCC(fb)
	if len(acks) != 3 {
		t.Fatalf("%d acknowledgements for a feedback that declares 3 statuses", len(acks))
	}
}
