package cc

// Witness of the C09 defect repaired by a "fix:" commit on internal/cc/feedback_adapter.go: the arrival delta of a
// received packet that is no longer in the send history was not consumed, shifting the arrival time of every later
// packet in the same feedback.

import (
	"testing"
	"time"

	"github.com/pion/rtcp"
	"github.com/pion/rtp"
)

func TestWitnessC09_EvictedNeighbourShiftsArrivalTimes(t *testing.T) {
	a := NewFeedbackAdapter()
	t0 := time.Unix(100, 0)
	// only transport sequence number 11 is in the history; 10 is not (evicted / unknown)
	hdr := rtp.Header{}
	ext, _ := (&rtp.TransportCCExtension{TransportSequence: 11}).Marshal()
	_ = hdr.SetExtension(5, ext)
	if err := a.onSentTWCC(t0, 5, &hdr, 100); err != nil {
		t.Fatal(err)
	}
	fb := &rtcp.TransportLayerCC{
		BaseSequenceNumber: 10, PacketStatusCount: 2, ReferenceTime: 0,
		PacketChunks: []rtcp.PacketStatusChunk{&rtcp.RunLengthChunk{PacketStatusSymbol: rtcp.TypeTCCPacketReceivedSmallDelta, RunLength: 2}},
		RecvDeltas:   []*rtcp.RecvDelta{{Type: 1, Delta: 1000}, {Type: 1, Delta: 3000}},
	}
	acks, err := a.OnTransportCCFeedback(t0, fb)
	if err != nil {
		t.Fatal(err)
	}
	want := time.Time{}.Add(4000 * time.Microsecond) // reference + 1000 us (packet 10) + 3000 us (packet 11)
	if got := acks[1].Arrival; !got.Equal(want) {
		t.Fatalf("arrival of packet 11 = reference+%v, want reference+%v", got.Sub(time.Time{}), want.Sub(time.Time{}))
	}
}
