package nack

// Witnesses of the C03 defects repaired by the two "fix:" commits on pkg/nack/receive_log.go.
// Run (from /repo): go test -overlay <overlay mapping pkg/nack/zz_witness_test.go to this file> -run TestWitnessC03 ./pkg/nack
// They fail on the original code and pass on the repaired code.

import "testing"

func TestWitnessC03_LatePacketAliasing(t *testing.T) {
	rl, _ := newReceiveLog(64)
	rl.add(1000)
	rl.add(1002) // 1001 is missing
	rl.add(937)  // 65 behind the highest: outside the window, same bitmap slot as 1001
	got := rl.missingSeqNumbers(0, make([]uint16, 64))
	if len(got) != 1 || got[0] != 1001 {
		t.Fatalf("missing = %v, want [1001]", got)
	}
}

func TestWitnessC03_Size32768CursorOneWindowBehind(t *testing.T) {
	rl, _ := newReceiveLog(32768)
	rl.add(0)
	rl.add(32767)
	rl.add(32768)
	got := rl.missingSeqNumbers(0, make([]uint16, 32768))
	if len(got) != 32766 || got[0] != 1 || got[32765] != 32766 {
		t.Fatalf("len(missing) = %d, want 32766 (1..32766)", len(got))
	}
}

func TestWitnessC03_SkipLastNBeyondHalfRange(t *testing.T) {
	rl, _ := newReceiveLog(64)
	defer func() {
		if r := recover(); r != nil {
			t.Fatalf("panic: %v", r)
		}
	}()
	if got := rl.missingSeqNumbers(40000, make([]uint16, 64)); len(got) != 0 {
		t.Fatalf("missing = %v, want none", got)
	}
}
