package stats

// Witness of the C19 defect repaired by the "fix:" commit on pkg/stats/stats_recorder.go:
// an ExtendedReport inside a compound RTCP packet ended the processing of the whole compound ("return"),
// so feedback packets after it were never counted.

import (
	"testing"
	"time"

	"github.com/pion/logging"
	"github.com/pion/rtcp"
)

func TestWitnessC19_PacketsAfterXRInCompoundAreCounted(t *testing.T) {
	r := newRecorder(1, 90000, logging.NewDefaultLoggerFactory())
	s := r.recordIncomingRTCP(internalStats{}, &incomingRTCP{ts: time.Unix(1, 0), pkts: []rtcp.Packet{
		&rtcp.ExtendedReport{SenderSSRC: 9, Reports: []rtcp.ReportBlock{&rtcp.DLRRReportBlock{Reports: []rtcp.DLRRReport{{SSRC: 1}}}}},
		&rtcp.PictureLossIndication{SenderSSRC: 9, MediaSSRC: 1},
	}})
	if s.OutboundRTPStreamStats.PLICount != 1 {
		t.Fatalf("PLI after an XR in the same compound not counted: PLICount = %d, want 1", s.OutboundRTPStreamStats.PLICount)
	}
}
