package report

// Witness of the C07 known finding: the sender stream uses packetCount == 0 as "no packet sent yet".
// After 2^32 packets the counter is 0 again and an older (out-of-order) packet moves the sender-report
// timestamp reference backwards although use-latest-packet is off. FAILS on the current code.

import (
	"math"
	"testing"
	"time"

	"github.com/pion/rtp"
)

func TestWitnessC07_CounterWrapTreatsStreamAsNew(t *testing.T) {
	s := newSenderStream(1, 90000, false)
	t0 := time.Unix(1000, 0)
	s.processRTP(t0, &rtp.Header{SequenceNumber: 10, Timestamp: 1000}, nil)
	s.packetCount = math.MaxUint32 // the state after 2^32-1 packets (not replayed one by one)
	s.processRTP(t0.Add(time.Second), &rtp.Header{SequenceNumber: 11, Timestamp: 2000}, nil)
	s.processRTP(t0.Add(2*time.Second), &rtp.Header{SequenceNumber: 5, Timestamp: 500}, nil) // older packet
	if s.lastRTPTimeRTP != 2000 {
		t.Fatalf("timestamp reference moved backwards to %d (want 2000)", s.lastRTPTimeRTP)
	}
}
