package rtpbuffer

// Witnesses of the C04 defects repaired by three "fix:" commits in internal/rtpbuffer.
// They fail on the original code and pass on the repaired code.

import (
	"testing"

	"github.com/pion/rtp"
)

func mk(t *testing.T, f *PacketFactoryCopy, seq uint16, payload []byte, rtxSsrc uint32, rtxPT uint8, padding bool) *RetainablePacket {
	t.Helper()
	p, err := f.NewPacket(&rtp.Header{SequenceNumber: seq, Padding: padding}, payload, rtxSsrc, rtxPT)
	if err != nil {
		t.Fatalf("NewPacket: %v", err)
	}
	return p
}

func TestWitnessC04_LateSendEvictsNewerPacket(t *testing.T) {
	f := NewPacketFactoryCopy()
	b, _ := NewRTPBuffer(8)
	for seq := uint16(100); seq <= 107; seq++ {
		b.Add(mk(t, f, seq, []byte{byte(seq)}, 0, 0, false))
	}
	b.Add(mk(t, f, 91, []byte{91}, 0, 0, false)) // 16 behind the highest: outside the window, same slot as 107
	if p := b.Get(107); p == nil {
		t.Fatalf("packet 107 (inside the window) can no longer be retransmitted")
	}
}

func TestWitnessC04_RTXFullSizePayloadTruncated(t *testing.T) {
	f := NewPacketFactoryCopy()
	payload := make([]byte, 1460)
	for i := range payload {
		payload[i] = byte(i)
	}
	p := mk(t, f, 7, payload, 1234, 97, false)
	if len(p.Payload()) != 1462 || p.Payload()[1461] != payload[1459] {
		t.Fatalf("RTX payload length %d, want 1462 (OSN + 1460 bytes)", len(p.Payload()))
	}
}

func TestWitnessC04_RTXPaddingCutsIntoOSN(t *testing.T) {
	f := NewPacketFactoryCopy()
	// padded packet with an empty payload, sequence number low byte 1: the OSN byte must not be read as padding length
	p, err := f.NewPacket(&rtp.Header{SequenceNumber: 0x0201, Padding: true}, []byte{}, 1234, 97)
	if err == nil && (len(p.Payload()) != 2 || p.Payload()[0] != 0x02 || p.Payload()[1] != 0x01) {
		t.Fatalf("RTX payload %v, want the intact OSN prefix [2 1]", p.Payload())
	}
}
