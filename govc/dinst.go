package main

// Directed quantifier instantiation (trigger matching, goal first).
//
// The plain scheme in inst.go instantiates every quantified hypothesis at every candidate index term of the
// query; in large functions the bounded candidate lists fill up with irrelevant terms. Here the instances are
// driven by the goal: the set R of relevant ground terms starts with the terms of the (Skolemized) goal; a
// quantified hypothesis is instantiated only where one of its triggers - an array read or an uninterpreted
// application whose index mentions the bound variable - matches a ground read in R of an array that can share
// cells with the trigger's array (same sort, intersecting base arrays). The index equation is solved for the
// bound variable (b, c+b, zext(b), ...). The new instances' terms join R and the process is repeated.
// Only instances of hypotheses are added, so `unsat` of the resulting query is sound.

import (
	"fmt"
	"os"
	"sort"
	"strings"
)

type dinst struct {
	leafCache map[*Term]map[*Term]bool
	selBySort map[*Sort][]*Term // ground select terms by array sort
	appsByOp  map[string][]*Term
	inR       map[*Term]bool
	skolems   map[*Sort][]*Term
	scalars   map[*Sort][]*Term // closed variables / reads per scalar sort (for bound variables without a trigger)
	done      map[string]bool
	budget    int
	sizes     map[*Term]int
	hh        *hasher
	out       []*Term
}

// subs: the array terms whose cells a may share through its store/ite structure: a itself, the arrays it was
// stored over, the array values stored into it, and (for an element of an array of arrays) those of the outer array.
func (d *dinst) subs(a *Term) map[*Term]bool {
	if r, ok := d.leafCache[a]; ok {
		return r
	}
	r := map[*Term]bool{a: true}
	d.leafCache[a] = r
	add := func(m map[*Term]bool) {
		for k := range m {
			r[k] = true
		}
	}
	switch a.Op {
	case "store":
		add(d.subs(a.Args[0]))
		if a.Args[2].S.K == KArray {
			add(d.subs(a.Args[2]))
		}
	case "ite":
		add(d.subs(a.Args[1]))
		add(d.subs(a.Args[2]))
	case "select":
		add(d.subs(a.Args[0]))
	case "constarr":
		if a.Args[0].S.K == KArray {
			add(d.subs(a.Args[0]))
		}
	}
	return r
}

// related: may an instance about reads of the pattern array p say something about the ground array g?
func (d *dinst) related(p, g *Term) bool {
	if p == g {
		return true
	}
	if len(p.fb) > 0 {
		// the array itself depends on the bound variable (e.g. M[H[k]]): compare the outer arrays
		if p.Op == "select" && g.Op == "select" {
			return d.related(p.Args[0], g.Args[0])
		}
		if p.Op == "select" {
			return d.related(p.Args[0], g)
		}
		return false
	}
	if d.subs(g)[p] || d.subs(p)[g] {
		return true
	}
	// elements of arrays of arrays (slice memories, map tables): compare the outer arrays
	if p.Op == "select" && g.Op == "select" && p.Args[0].S == g.Args[0].S {
		return d.related(p.Args[0], g.Args[0])
	}
	return false
}

// addGround registers the closed select terms and uninterpreted applications of t as relevant.
func (d *dinst) addGround(t *Term) int {
	n := 0
	var rec func(t *Term)
	rec = func(t *Term) {
		if d.inR[t] {
			return
		}
		d.inR[t] = true
		if len(t.fb) == 0 && (t.S.K == KBV || t.S.K == KInt) && (t.Op == "var" || t.Op == "select") && len(d.scalars[t.S]) < 16 {
			d.scalars[t.S] = append(d.scalars[t.S], t)
		}
		if len(t.fb) == 0 && t.Op == "store" {
			// a write is as relevant as a read of the written cell
			d.selBySort[t.S] = append(d.selBySort[t.S], t)
			n++
		}
		if len(t.fb) == 0 {
			if t.Op == "select" {
				d.selBySort[t.Args[0].S] = append(d.selBySort[t.Args[0].S], t)
				n++
			} else if strings.HasPrefix(t.Op, "app:") && len(t.Args) > 0 {
				d.appsByOp[t.Op] = append(d.appsByOp[t.Op], t)
				n++
			}
		}
		for _, a := range t.Args {
			rec(a)
		}
	}
	rec(t)
	return n
}

func hasFB(t *Term, b *Term) bool {
	for _, x := range t.fb {
		if x == b.id {
			return true
		}
	}
	return false
}

func onlyFB(t *Term, b *Term) bool { return len(t.fb) == 1 && t.fb[0] == b.id }

// solveFor: a term v with pat[b := v] == t (as far as the shapes below allow).
func solveFor(pat, b, t *Term) (*Term, bool) {
	if pat == b {
		if b.S != t.S {
			return nil, false
		}
		return t, true
	}
	if pat.S != t.S {
		return nil, false
	}
	switch {
	case pat.Op == "bvadd" && len(pat.Args) == 2:
		for k := 0; k < 2; k++ {
			if hasFB(pat.Args[k], b) && len(pat.Args[1-k].fb) == 0 {
				return solveFor(pat.Args[k], b, BVBin("bvsub", t, pat.Args[1-k]))
			}
		}
	case pat.Op == "bvsub" && len(pat.Args) == 2:
		if hasFB(pat.Args[0], b) && len(pat.Args[1].fb) == 0 {
			return solveFor(pat.Args[0], b, BVBin("bvadd", t, pat.Args[1]))
		}
		if hasFB(pat.Args[1], b) && len(pat.Args[0].fb) == 0 {
			return solveFor(pat.Args[1], b, BVBin("bvsub", pat.Args[0], t))
		}
	case strings.HasPrefix(pat.Op, "(_ zero_extend") || strings.HasPrefix(pat.Op, "(_ sign_extend"):
		in := pat.Args[0]
		return solveFor(in, b, Extract(t, in.S.W-1, 0))
	case strings.HasPrefix(pat.Op, "(_ extract"):
		in := pat.Args[0]
		if in.S.W > pat.S.W && strings.HasSuffix(pat.Op, " 0)") {
			return solveFor(in, b, ZeroExt(t, in.S.W))
		}
	case pat.Op == "intadd" || pat.Op == "+":
		if len(pat.Args) == 2 {
			for k := 0; k < 2; k++ {
				if hasFB(pat.Args[k], b) && len(pat.Args[1-k].fb) == 0 {
					return solveFor(pat.Args[k], b, IntOp("-", t, pat.Args[1-k]))
				}
			}
		}
	}
	return nil, false
}

type trig struct {
	sel  bool
	arr  *Term // select: array pattern
	idx  *Term // select: index pattern
	app  *Term // application pattern
	argI int
}

// triggersFor collects, per bound variable of the quantifier, the patterns that determine it.
func triggersFor(body *Term, bs []*Term) map[*Term][]trig {
	out := map[*Term][]trig{}
	seen := map[*Term]bool{}
	var rec func(t *Term)
	rec = func(t *Term) {
		if seen[t] || len(t.fb) == 0 {
			return
		}
		seen[t] = true
		if t.Op == "select" {
			ix := t.Args[1]
			for _, b := range bs {
				if onlyFB(ix, b) {
					out[b] = append(out[b], trig{sel: true, arr: t.Args[0], idx: ix})
				}
			}
		} else if strings.HasPrefix(t.Op, "app:") {
			for i, a := range t.Args {
				if a.S.K == KArray {
					continue
				}
				for _, b := range bs {
					if onlyFB(a, b) {
						out[b] = append(out[b], trig{app: t, argI: i})
					}
				}
			}
		}
		for _, a := range t.Args {
			rec(a)
		}
	}
	rec(body)
	return out
}

// candidates: ground terms to instantiate b with. All matches are collected first and the smallest ones kept
// (ties by structural hash), so the choice does not depend on the order in which terms happened to be created.
func (d *dinst) candidates(b *Term, trigs []trig, limit0 int) []*Term {
	var out []*Term
	seen := map[*Term]bool{}
	limit := 4000
	add := func(v *Term) {
		if v != nil && !seen[v] && len(out) < limit && len(v.fb) == 0 {
			seen[v] = true
			out = append(out, v)
		}
	}
	defer func() {}()
	finish := func() []*Term {
		if len(out) <= limit0 {
			return out
		}
		sort.SliceStable(out, func(i, j int) bool {
			si, sj := d.size(out[i]), d.size(out[j])
			if si != sj {
				return si < sj
			}
			return d.hh.hash(out[i]) < d.hh.hash(out[j])
		})
		return out[:limit0]
	}
	for _, s := range d.skolems[b.S] {
		add(s)
	}
	if len(trigs) == 0 {
		// no pattern determines this variable: the variables and reads of its sort near the goal
		for _, s := range d.scalars[b.S] {
			add(s)
		}
	}
	hasSel := false
	for _, tr := range trigs {
		if tr.sel {
			hasSel = true
		}
	}
	for _, tr := range trigs {
		if !tr.sel && hasSel {
			// applications only determine variables that no array read determines (avoids matching loops through
			// syntactically different but equal keys)
			continue
		}
		if tr.sel {
			for _, g := range d.selBySort[tr.arr.S] {
				if len(out) >= limit {
					break
				}
				ga := g.Args[0]
				if g.Op == "store" {
					ga = g
				}
				if !d.related(tr.arr, ga) {
					continue
				}
				if v, ok := solveFor(tr.idx, b, g.Args[1]); ok {
					add(v)
				}
			}
		} else {
			for _, g := range d.appsByOp[tr.app.Op] {
				if len(out) >= limit {
					break
				}
				if len(g.Args) != len(tr.app.Args) {
					continue
				}
				// closed scalar arguments of the pattern must be syntactically equal (cheap filter), arrays are not compared
				okArgs := true
				for i, pa := range tr.app.Args {
					if i != tr.argI && len(pa.fb) == 0 && pa.S.K != KArray && pa.IsConst() && g.Args[i].IsConst() && pa != g.Args[i] {
						okArgs = false
					}
				}
				if !okArgs {
					continue
				}
				if v, ok := solveFor(tr.app.Args[tr.argI], b, g.Args[tr.argI]); ok {
					add(v)
				}
			}
		}
	}
	return finish()
}

// process instantiates the positively occurring quantifiers of h.
func (d *dinst) process(h *Term, guard []*Term, fresh *[]*Term) {
	switch h.Op {
	case "and":
		for _, a := range h.Args {
			if hasQuantifier(a) {
				d.process(a, guard, fresh)
			}
		}
	case "=>":
		if hasQuantifier(h.Args[1]) {
			d.process(h.Args[1], append(append([]*Term{}, guard...), h.Args[0]), fresh)
		}
	case "forall":
		trigs := triggersFor(h.Args[0], h.Bound)
		lists := make([][]*Term, len(h.Bound))
		total := 1
		for i, b := range h.Bound {
			lim := 48
			if len(h.Bound) > 1 {
				lim = 12
			}
			lists[i] = d.candidates(b, trigs[b], lim)
			total *= len(lists[i])
		}
		if total == 0 || total > 600 {
			return
		}
		idx := make([]int, len(h.Bound))
		for {
			var sb strings.Builder
			m := map[*Term]*Term{}
			for i, b := range h.Bound {
				m[b] = lists[i][idx[i]]
				sb.WriteString(",")
				sb.WriteString(itoa(lists[i][idx[i]].id))
			}
			key := itoa(h.id) + sb.String()
			if !d.done[key] && d.budget > 0 {
				d.done[key] = true
				d.budget--
				body := Subst(h.Args[0], m)
				if hasQuantifier(body) {
					// existentials of the instance become fresh constants (candidates for later matching)
					var nsk []*Term
					body = posSkolem(body, true, &nsk)
					for _, c := range nsk {
						d.skolems[c.S] = append(d.skolems[c.S], c)
					}
				}
				if hasQuantifier(body) && (body.Op == "forall" || body.Op == "=>" || body.Op == "and") {
					d.process(body, guard, fresh)
				}
				if body.Op != "forall" {
					// nested quantifiers of the instance are instantiated by the recursion above; the instance itself
					// is kept quantifier-free (a weakening)
					inst := Implies(And(guard...), stripQuant(body))
					if inst.Op != "true" {
						*fresh = append(*fresh, inst)
					}
				}
			}
			k := len(idx) - 1
			for k >= 0 {
				idx[k]++
				if idx[k] < len(lists[k]) {
					break
				}
				idx[k] = 0
				k--
			}
			if k < 0 {
				break
			}
		}
	}
}

func itoa(n int) string {
	if n == 0 {
		return "0"
	}
	var b [20]byte
	i := len(b)
	for n > 0 {
		i--
		b[i] = byte('0' + n%10)
		n /= 10
	}
	return string(b[i:])
}

// DirectedStages returns quantifier-free queries of increasing size built by goal-directed trigger matching:
// stage (r, n) has the instances of the first r matching rounds and the quantifier-free hypotheses within n steps
// of the goal and those instances (n < 0: all of them). Every stage only has hypotheses implied by the original
// ones, so `unsat` of any stage is sound; `sat` of a stage just means that more is needed.
func (q *Query) DirectedStages(rounds int) []*Query {
	if q.Goal == nil {
		return nil
	}
	hyps0 := q.Hyps
	g0 := q.Goal
	for g0.Op == "=>" && hasQuantifier(g0.Args[0]) {
		hyps0 = append(append([]*Term{}, hyps0...), g0.Args[0])
		g0 = g0.Args[1]
	}
	var sks []*Term
	goal := skolemize(g0, &sks)
	seed := goal
	if hasQuantifier(goal) {
		// A => (exists k. B): the antecedents become hypotheses and so does the negated conclusion  forall k. not B
		g := goal
		var ante []*Term
		for g.Op == "=>" {
			ante = append(ante, g.Args[0])
			g = g.Args[1]
		}
		if g.Op == "not" && g.Args[0].Op == "forall" && !hasQuantifier(g.Args[0].Args[0]) {
			hyps0 = append(append(append([]*Term{}, hyps0...), ante...), g.Args[0])
			goal = False
			seed = And(append(append([]*Term{}, ante...), g.Args[0])...)
		} else {
			return nil
		}
	}
	var qhyps, qf []*Term
	for _, h := range hyps0 {
		if hasQuantifier(h) {
			h = posSkolem(splitIff(h), true, &sks)
		}
		if hasQuantifier(h) {
			qhyps = append(qhyps, h)
			if g := stripQuant(h); g.Op != "true" {
				qf = append(qf, g)
			}
		} else {
			qf = append(qf, h)
		}
	}
	if len(qhyps) == 0 {
		return nil
	}
	d := &dinst{leafCache: map[*Term]map[*Term]bool{}, selBySort: map[*Sort][]*Term{}, appsByOp: map[string][]*Term{},
		inR: map[*Term]bool{}, skolems: map[*Sort][]*Term{}, scalars: map[*Sort][]*Term{}, done: map[string]bool{}, budget: 6000, sizes: map[*Term]int{}, hh: &hasher{memo: map[*Term]string{}, sorted: true}}
	for _, s := range sks {
		d.skolems[s.S] = append(d.skolems[s.S], s)
	}
	d.addGround(seed)
	// quantifier-free hypotheses near the goal contribute their reads too
	near := nearHyps(seed, qf, 2)
	for _, h := range near {
		d.addGround(h)
	}
	var perRound [][]*Term
	uniq := map[*Term]bool{}
	for r := 0; r < rounds; r++ {
		var fresh []*Term
		for _, h := range qhyps {
			d.process(h, nil, &fresh)
		}
		if len(fresh) == 0 {
			break
		}
		var fr []*Term
		for _, f := range fresh {
			if hasQuantifier(f) {
				// existentials of an instance get fresh constants (which later rounds can match against)
				var nsk []*Term
				f = posSkolem(f, true, &nsk)
				for _, c := range nsk {
					d.skolems[c.S] = append(d.skolems[c.S], c)
				}
			}
			if !uniq[f] {
				uniq[f] = true
				fr = append(fr, f)
			}
			d.addGround(f)
		}
		sort.SliceStable(fr, func(i, j int) bool { return d.hh.hash(fr[i]) < d.hh.hash(fr[j]) })
		perRound = append(perRound, fr)
		if os.Getenv("GOVC_DEBUG") != "" {
			fmt.Fprintf(os.Stderr, "dinst round %d: %d quantified hyps, %d qf hyps (%d near), %d new instances\n", r, len(qhyps), len(qf), len(near), len(fr))
		}
	}
	if len(perRound) == 0 {
		return nil
	}
	type stage struct{ r, n int }
	var plan []stage
	for r := 1; r <= len(perRound); r++ {
		if r == 1 {
			plan = append(plan, stage{r, 1})
		}
		plan = append(plan, stage{r, 2}, stage{r, -1})
	}
	var out []*Query
	lastSize := -1
	for _, sg := range plan {
		var insts []*Term
		for r := 0; r < sg.r; r++ {
			insts = append(insts, perRound[r]...)
		}
		hy := qf
		if sg.n >= 0 {
			hy = nearHyps(And(append([]*Term{goal}, insts...)...), qf, sg.n)
		}
		size := len(hy)*100000 + len(insts)
		if size == lastSize {
			continue
		}
		lastSize = size
		out = append(out, &Query{Hyps: append(append([]*Term{}, hy...), insts...), Goal: goal, Extra: q.Extra, FPMode: q.FPMode})
	}
	return out
}

// nearHyps: the hypotheses within `rounds` steps of the goal in the shares-a-symbol graph (very common symbols do not connect).
func nearHyps(goal *Term, hyps []*Term, rounds int) []*Term {
	syms := make([]map[string]bool, len(hyps))
	freq := map[string]int{}
	for i, h := range hyps {
		syms[i] = map[string]bool{}
		allSyms(h, syms[i])
		for s := range syms[i] {
			freq[s]++
		}
	}
	common := func(s string) bool { return len(hyps) >= 40 && freq[s]*4 > len(hyps) }
	cone := map[string]bool{}
	allSyms(goal, cone)
	picked := make([]bool, len(hyps))
	var out []*Term
	for r := 0; r < rounds; r++ {
		var add []int
		for i := range hyps {
			if picked[i] {
				continue
			}
			for s := range syms[i] {
				if cone[s] && !common(s) {
					add = append(add, i)
					break
				}
			}
		}
		if len(add) == 0 {
			break
		}
		for _, i := range add {
			picked[i] = true
			out = append(out, hyps[i])
			for s := range syms[i] {
				cone[s] = true
			}
		}
	}
	return out
}

// posSkolem replaces existential quantifiers of a closed hypothesis (universal quantifiers in negative position) by
// fresh constants. pol is the polarity of t.
func posSkolem(t *Term, pol bool, sks *[]*Term) *Term {
	if !hasQuantifier(t) {
		return t
	}
	switch t.Op {
	case "not":
		return Not(posSkolem(t.Args[0], !pol, sks))
	case "and", "or":
		args := make([]*Term, len(t.Args))
		for i, a := range t.Args {
			args[i] = posSkolem(a, pol, sks)
		}
		if t.Op == "and" {
			return And(args...)
		}
		return Or(args...)
	case "=>":
		return Implies(posSkolem(t.Args[0], !pol, sks), posSkolem(t.Args[1], pol, sks))
	case "forall":
		if pol || len(t.fb) > 0 {
			return t
		}
		m := map[*Term]*Term{}
		for _, b := range t.Bound {
			c := FreshVar("ex_"+b.Name, b.S)
			m[b] = c
			*sks = append(*sks, c)
		}
		return posSkolem(Subst(t.Args[0], m), pol, sks)
	}
	return t
}

// splitIff rewrites Boolean equalities with a quantified side, a = b, into (a => b) and (b => a), so that each
// direction has a definite polarity (one can be instantiated, the other Skolemized).
func splitIff(t *Term) *Term {
	if !hasQuantifier(t) {
		return t
	}
	switch t.Op {
	case "=":
		if t.Args[0].S.K == KBool && len(t.fb) == 0 {
			a, b := t.Args[0], t.Args[1]
			return And(Implies(a, b), Implies(b, a))
		}
		return t
	case "and", "or":
		args := make([]*Term, len(t.Args))
		for i, a := range t.Args {
			args[i] = splitIff(a)
		}
		if t.Op == "and" {
			return And(args...)
		}
		return Or(args...)
	case "=>":
		return Implies(t.Args[0], splitIff(t.Args[1]))
	}
	return t
}

// size: number of nodes of the term as a tree (capped), memoised.
func (d *dinst) size(t *Term) int {
	if n, ok := d.sizes[t]; ok {
		return n
	}
	n := 1
	for _, a := range t.Args {
		n += d.size(a)
		if n > 1000000 {
			n = 1000000
			break
		}
	}
	d.sizes[t] = n
	return n
}
