package main

// Canonical form for linear bit-vector arithmetic (an equivalence-preserving rewriting of a query before it is
// printed). Sums, differences, negations, multiplications by constants and left shifts by constants are collected
// into  c + k1*a1 + ... + kn*an  (coefficients modulo 2^w, atoms ordered by their term id); truncations
// (extract w-1..0) distribute over the sum. Semantically equal index and key expressions such as
// base + uint16(len) + uint16(j - len)  and  base + uint16(j)  become the same term, so that congruence over
// uninterpreted functions and array reads needs no bit-level reasoning.

import (
	"fmt"
	"math/big"
	"os"
	"sort"
	"strings"
	"sync"
)

type linForm struct {
	w int
	c *big.Int
	m map[*Term]*big.Int
}

type normalizer struct {
	cache map[*Term]*Term
	lins  map[*Term]*linForm
}

func newNormalizer() *normalizer {
	return &normalizer{cache: map[*Term]*Term{}, lins: map[*Term]*linForm{}}
}

func modW(v *big.Int, w int) *big.Int {
	return new(big.Int).And(v, mask(w))
}

func (l *linForm) addScaled(o *linForm, k *big.Int) {
	l.c = modW(new(big.Int).Add(l.c, new(big.Int).Mul(o.c, k)), l.w)
	for a, c := range o.m {
		cur := l.m[a]
		if cur == nil {
			cur = new(big.Int)
		}
		n := modW(new(big.Int).Add(cur, new(big.Int).Mul(c, k)), l.w)
		if n.Sign() == 0 {
			delete(l.m, a)
		} else {
			l.m[a] = n
		}
	}
}

func newLin(w int) *linForm { return &linForm{w: w, c: new(big.Int), m: map[*Term]*big.Int{}} }

func (n *normalizer) atomLin(a *Term) *linForm {
	l := newLin(a.S.W)
	l.m[a] = big.NewInt(1)
	return l
}

// linOf: the linear form of a bit-vector term (atoms are normalized terms).
func (n *normalizer) linOf(t *Term) *linForm {
	if l, ok := n.lins[t]; ok {
		return l
	}
	w := t.S.W
	var l *linForm
	one := big.NewInt(1)
	switch {
	case t.Op == "bvconst":
		l = newLin(w)
		l.c = modW(t.BigVal(), w)
	case t.Op == "bvadd" && len(t.Args) == 2:
		l = newLin(w)
		l.addScaled(n.linOf(t.Args[0]), one)
		l.addScaled(n.linOf(t.Args[1]), one)
	case t.Op == "bvsub" && len(t.Args) == 2:
		l = newLin(w)
		l.addScaled(n.linOf(t.Args[0]), one)
		l.addScaled(n.linOf(t.Args[1]), big.NewInt(-1))
	case t.Op == "bvneg":
		l = newLin(w)
		l.addScaled(n.linOf(t.Args[0]), big.NewInt(-1))
	case t.Op == "bvmul" && len(t.Args) == 2 && (t.Args[0].Op == "bvconst" || t.Args[1].Op == "bvconst"):
		k, x := t.Args[0], t.Args[1]
		if k.Op != "bvconst" {
			k, x = x, k
		}
		l = newLin(w)
		l.addScaled(n.linOf(x), k.BigVal())
	case t.Op == "bvshl" && len(t.Args) == 2 && t.Args[1].Op == "bvconst" && t.Args[1].BigVal().Cmp(big.NewInt(int64(w))) < 0:
		l = newLin(w)
		l.addScaled(n.linOf(t.Args[0]), new(big.Int).Lsh(one, uint(t.Args[1].BigVal().Int64())))
	case strings.HasPrefix(t.Op, "(_ extract") && strings.HasSuffix(t.Op, " 0)") && t.Args[0].S.K == KBV:
		in := n.linOf(t.Args[0])
		if len(in.m) == 1 && in.c.Sign() == 0 {
			// a single atom: keep the truncation of that atom as an atom (unless the constructor simplifies it)
			var only *Term
			var k *big.Int
			for a, c := range in.m {
				only, k = a, c
			}
			ex := Extract(only, w-1, 0)
			if strings.HasPrefix(ex.Op, "(_ extract") && ex.Args[0] == only {
				l = newLin(w)
				kk := modW(k, w)
				if kk.Sign() != 0 {
					l.m[ex] = kk
				}
				break
			}
			l = newLin(w)
			l.addScaled(n.linOf(ex), k)
			break
		}
		l = newLin(w)
		l.c = modW(in.c, w)
		for a, c := range in.m {
			ex := Extract(a, w-1, 0)
			var sub *linForm
			if strings.HasPrefix(ex.Op, "(_ extract") && ex.Args[0] == a {
				sub = n.atomLin(ex)
			} else {
				sub = n.linOf(ex)
			}
			l.addScaled(sub, c)
		}
	default:
		l = n.atomLin(n.normAtom(t))
	}
	n.lins[t] = l
	return l
}

// normAtom rebuilds a non-linear term over normalized arguments.
func (n *normalizer) normAtom(t *Term) *Term {
	if len(t.Args) == 0 {
		return t
	}
	args := make([]*Term, len(t.Args))
	ch := false
	for i, a := range t.Args {
		args[i] = n.norm(a)
		if args[i] != a {
			ch = true
		}
	}
	if !ch {
		return t
	}
	return rebuild(t, args)
}

func (n *normalizer) fromLin(l *linForm) *Term {
	w := l.w
	atoms := make([]*Term, 0, len(l.m))
	for a := range l.m {
		atoms = append(atoms, a)
	}
	sort.Slice(atoms, func(i, j int) bool { return atoms[i].id < atoms[j].id })
	half := new(big.Int).Lsh(big.NewInt(1), uint(w-1))
	full := new(big.Int).Lsh(big.NewInt(1), uint(w))
	var acc *Term
	var negs []*Term
	for _, a := range atoms {
		k := l.m[a]
		neg := false
		if k.Cmp(half) > 0 {
			neg = true
			k = new(big.Int).Sub(full, k)
		}
		term := a
		if k.Cmp(big.NewInt(1)) != 0 {
			term = mk("bvmul", a.S, "", nil, BVC(k, w), a)
		}
		if neg {
			negs = append(negs, term)
			continue
		}
		if acc == nil {
			acc = term
		} else {
			acc = mk("bvadd", a.S, "", nil, acc, term)
		}
	}
	if l.c.Sign() != 0 || acc == nil {
		c := BVC(l.c, w)
		if acc == nil {
			acc = c
		} else {
			acc = mk("bvadd", acc.S, "", nil, acc, c)
		}
	}
	for _, t := range negs {
		acc = mk("bvsub", acc.S, "", nil, acc, t)
	}
	return acc
}

func (n *normalizer) norm(t *Term) *Term {
	if r, ok := n.cache[t]; ok {
		return r
	}
	var r *Term
	if t.S.K == KBV && len(t.Args) > 0 {
		l := n.linOf(t)
		if len(l.m) == 1 && l.c.Sign() == 0 {
			for a, k := range l.m {
				if k.Cmp(big.NewInt(1)) == 0 {
					r = a
				}
			}
		}
		if r == nil {
			r = n.fromLin(l)
		}
	} else {
		r = n.normAtom(t)
	}
	n.cache[t] = r
	return r
}

// Normalized returns the query with all bit-vector arithmetic in canonical linear form.
// Unconditional hypotheses of the form  variable = term  are first used as substitutions (the variable is
// eliminated), which is equisatisfiable.
func (q *Query) Normalized() *Query {
	sub := topLevelEqs(q.Hyps)
	n := newNormalizer()
	out := &Query{Extra: q.Extra, FPMode: q.FPMode}
	ap := func(t *Term) *Term {
		if len(sub) > 0 {
			t = Subst(t, sub)
		}
		return n.norm(t)
	}
	if q.Goal != nil {
		out.Goal = ap(q.Goal)
	}
	for _, h := range q.Hyps {
		x := ap(h)
		if x.Op != "true" {
			out.Hyps = append(out.Hyps, x)
		}
	}
	if dir := os.Getenv("GOVC_NORMCHECK"); dir != "" {
		// self-check of the rewriting: every closed bit-vector term must equal its canonical form (expect unsat)
		var diffs []*Term
		for t, r := range n.cache {
			if t != r && t.S.K == KBV && len(t.fb) == 0 && len(diffs) < 400 {
				diffs = append(diffs, Not(Eq(t, r)))
			}
		}
		if len(diffs) > 0 {
			normCheckMu.Lock()
			normCheckN++
			k := normCheckN
			normCheckMu.Unlock()
			cq := &Query{Hyps: []*Term{Or(diffs...)}}
			writeQuery(dir, fmt.Sprintf("normcheck%d", k), cq.Script(nil))
		}
	}
	return out
}

var (
	normCheckMu sync.Mutex
	normCheckN  int
)

func occursIn(v, t *Term) bool {
	seen := map[*Term]bool{}
	var rec func(t *Term) bool
	rec = func(t *Term) bool {
		if t == v {
			return true
		}
		if seen[t] || len(t.Args) == 0 {
			return false
		}
		seen[t] = true
		for _, a := range t.Args {
			if rec(a) {
				return true
			}
		}
		return false
	}
	return rec(t)
}

// topLevelEqs: substitution from the unconditional equalities  v = t  (v a scalar variable not occurring in t).
func topLevelEqs(hyps []*Term) map[*Term]*Term {
	sub := map[*Term]*Term{}
	var order []*Term
	var scan func(h *Term)
	scan = func(h *Term) {
		switch h.Op {
		case "and":
			for _, a := range h.Args {
				scan(a)
			}
		case "=":
			a, b := h.Args[0], h.Args[1]
			if a.S.K != KBV && a.S.K != KInt {
				return
			}
			if a.Op != "var" && b.Op == "var" {
				a, b = b, a
			}
			if a.Op != "var" {
				return
			}
			if b.Op == "var" && (canonName(b.Name) > canonName(a.Name) || (canonName(b.Name) == canonName(a.Name) && b.id > a.id)) {
				a, b = b, a
			}
			if _, done := sub[a]; done {
				return
			}
			if len(b.fb) > 0 {
				return
			}
			r := b
			if len(sub) > 0 {
				r = Subst(b, sub)
			}
			if occursIn(a, r) {
				return
			}
			one := map[*Term]*Term{a: r}
			for _, k := range order {
				sub[k] = Subst(sub[k], one)
			}
			sub[a] = r
			order = append(order, a)
		}
	}
	for _, h := range hyps {
		scan(h)
	}
	return sub
}
