package main

// Trusted specifications of external functions (assumed contracts; every use is reported in the evidence).

import (
	"strings"
	"fmt"
	"os"
	"go/token"
	"go/types"
	"math/big"

	"golang.org/x/tools/go/ssa"
)

type specHandler func(ex *Exec, fr *Frame, st *State, fn *ssa.Function, args []Val, pos token.Pos) []Val

var trustedSpecs = map[string]specHandler{}

func init() {
	lockSet := func(v int64) specHandler {
		return func(ex *Exec, fr *Frame, st *State, fn *ssa.Function, args []Val, pos token.Pos) []Val {
			loc := ex.locOf(args[0])
			ex.lockEvent(fr, st, loc, fn.Name(), pos)
			return nil
		}
	}
	for _, n := range []string{"Lock", "Unlock", "RLock", "RUnlock"} {
		trustedSpecs["(*sync.RWMutex)."+n] = lockSet(0)
	}
	for _, n := range []string{"Lock", "Unlock"} {
		trustedSpecs["(*sync.Mutex)."+n] = lockSet(0)
	}
	trustedSpecs["(*sync.WaitGroup).Add"] = func(ex *Exec, fr *Frame, st *State, fn *ssa.Function, args []Val, pos token.Pos) []Val {
		return nil
	}
	trustedSpecs["(*sync.WaitGroup).Done"] = trustedSpecs["(*sync.WaitGroup).Add"]
	trustedSpecs["(*sync.WaitGroup).Wait"] = func(ex *Exec, fr *Frame, st *State, fn *ssa.Function, args []Val, pos token.Pos) []Val {
		loc := ex.locOf(args[0])
		st.store(loc, Val{T: loc.T, L: []*Term{IntC(1)}}) // ghost: waited
		return nil
	}
	newErr := func(ex *Exec, fr *Frame, st *State, fn *ssa.Function, args []Val, pos token.Pos) []Val {
		ref := st.newRef()
		tag := IntC(int64(ex.ld.typeTag(types.NewPointer(ex.ld.errorStringType()))))
		return []Val{{T: fn.Signature.Results().At(0).Type(), L: []*Term{tag, ref}}}
	}
	trustedSpecs["fmt.Errorf"] = newErr
	trustedSpecs["errors.New"] = newErr
	trustedSpecs["fmt.Sprintf"] = func(ex *Exec, fr *Frame, st *State, fn *ssa.Function, args []Val, pos token.Pos) []Val {
		return []Val{scalar(types.Typ[types.String], FreshVar("str", IntS))}
	}
	trustedSpecs["fmt.Sprint"] = trustedSpecs["fmt.Sprintf"]
	initTimeSpecs()
	// sync.Pool: Get returns an object of the shape New produces, with arbitrary (recycled) contents
	trustedSpecs["(*sync.Pool).Get"] = func(ex *Exec, fr *Frame, st *State, fn *ssa.Function, args []Val, pos token.Pos) []Val {
		pool := st.load(ex.locOf(args[0]))
		newF, _ := fieldByName(pool, "New")
		if f, ok := ex.closureFn[newF.Term()]; ok {
			rs := ex.callStatic(fr, st, f, nil, ex.closures[newF.Term()], pos)
			if len(rs) == 1 && len(rs[0].L) == 2 && rs[0].L[0].Op == "intconst" && rs[0].L[0].Name != "0" {
				ct := ex.ld.tagType(rs[0].L[0])
				if _, isPtr := ct.Underlying().(*types.Pointer); isPtr {
					ex.havocReachable(st, scalar(ct, rs[0].L[1]), 0)
				}
			}
			return rs
		}
		// a package-level pool whose New function is set by the package initialiser (var p = sync.Pool{New: func...})
		if os.Getenv("GOVC_DEBUG") != "" {
			fmt.Fprintf(os.Stderr, "Pool.Get on %v (loc=%v), %d known pools\n", args[0].L, args[0].Loc != nil, len(ex.ld.poolNewFuncs()))
		}
		for g, f := range ex.ld.poolNewFuncs() {
			if ex.ld.globalRef(g) == args[0].Term() {
				rs := ex.callStatic(fr, st, f, nil, nil, pos)
				if len(rs) == 1 && len(rs[0].L) == 2 && rs[0].L[0].Op == "intconst" && rs[0].L[0].Name != "0" {
					ct := ex.ld.tagType(rs[0].L[0])
					if _, isPtr := ct.Underlying().(*types.Pointer); isPtr {
						ex.havocScalars(st, scalar(ct, rs[0].L[1]), 0)
					}
				}
				ex.trustedUsed["sync.Pool.Get returns an object built by the pool's New function that nothing else references; recycled objects keep their reference structure (slice headers, pointers) and have arbitrary scalar contents"] = true
				return rs
			}
		}
		// a pool held in a struct field that is only ever assigned `&sync.Pool{New: f}` (checked over all stores to the field)
		if pt := args[0].Term(); pt.Op == "select" {
			root := storeRoot(pt.Args[0])
			for root.Op == "ite" {
				root = storeRoot(root.Args[2])
			}
			if root.Op == "var" && strings.HasPrefix(root.Name, "H:") {
				name := strings.TrimPrefix(root.Name, "H:")
				if i := strings.LastIndexByte(name, '@'); i >= 0 {
					name = name[:i]
				}
				if i := strings.IndexByte(name, '#'); i >= 0 {
					if j := strings.IndexByte(name[i:], '.'); j >= 0 {
						name = name[:i] + name[i+j:]
					}
				}
				if f := ex.ld.poolFieldNewFuncs()[name]; f != nil {
					rs := ex.callStatic(fr, st, f, nil, nil, pos)
					if len(rs) == 1 && len(rs[0].L) == 2 && rs[0].L[0].Op == "intconst" && rs[0].L[0].Name != "0" {
						ct := ex.ld.tagType(rs[0].L[0])
						if _, isPtr := ct.Underlying().(*types.Pointer); isPtr {
							ex.havocScalars(st, scalar(ct, rs[0].L[1]), 0)
						}
					}
					ex.trustedUsed["sync.Pool.Get returns an object built by the pool's New function that nothing else references; recycled objects keep their reference structure (slice headers, pointers) and have arbitrary scalar contents; the pool in field "+name+" is the one every assignment to that field in the repository builds (checked)"] = true
					return rs
				}
			}
		}
		// unknown New function: an exclusively owned object of unknown dynamic type
		ref := st.newRef()
		ex.trustedUsed["sync.Pool.Get returns an object that nothing else references"] = true
		return []Val{{T: fn.Signature.Results().At(0).Type(), L: []*Term{FreshVar("pooltag", IntS), ref}}}
	}
	trustedSpecs["(*sync.Pool).Put"] = func(ex *Exec, fr *Frame, st *State, fn *ssa.Function, args []Val, pos token.Pos) []Val {
		return nil
	}
	for _, n := range []string{"Sqrt", "Abs", "Ceil", "Floor", "Exp", "Log"} {
		name := n
		trustedSpecs["math."+name] = func(ex *Exec, fr *Frame, st *State, fn *ssa.Function, args []Val, pos token.Pos) []Val {
			return []Val{scalar(types.Typ[types.Float64], App("math_"+name, F64S, args[0].Term()))}
		}
	}
	for _, n := range []string{"Max", "Min", "Pow"} {
		name := n
		trustedSpecs["math."+name] = func(ex *Exec, fr *Frame, st *State, fn *ssa.Function, args []Val, pos token.Pos) []Val {
			return []Val{scalar(types.Typ[types.Float64], App("math_"+name, F64S, args[0].Term(), args[1].Term()))}
		}
	}
	atomicAdd := func(ex *Exec, fr *Frame, st *State, fn *ssa.Function, args []Val, pos token.Pos) []Val {
		loc := ex.locOf(args[0])
		cur := st.load(loc)
		nv := scalar(cur.T, BVBin("bvadd", cur.Term(), args[1].Term()))
		st.store(loc, nv)
		ex.logTrusted(st, "atomic."+fn.Name(), args, []Val{nv}, pos)
		return []Val{scalar(fn.Signature.Results().At(0).Type(), nv.Term())}
	}
	atomicLoad := func(ex *Exec, fr *Frame, st *State, fn *ssa.Function, args []Val, pos token.Pos) []Val {
		v := st.load(ex.locOf(args[0]))
		v.T = fn.Signature.Results().At(0).Type()
		return []Val{v}
	}
	atomicStore := func(ex *Exec, fr *Frame, st *State, fn *ssa.Function, args []Val, pos token.Pos) []Val {
		st.store(ex.locOf(args[0]), Val{T: ex.locOf(args[0]).T, L: args[1].L})
		return nil
	}
	for _, t := range []string{"Uint32", "Uint64", "Int32", "Int64"} {
		trustedSpecs["sync/atomic.Add"+t] = atomicAdd
		trustedSpecs["sync/atomic.Load"+t] = atomicLoad
		trustedSpecs["sync/atomic.Store"+t] = atomicStore
	}
}

// logTrusted records a call to a trusted external function in the call log (queryable from contracts).
func (ex *Exec) logTrusted(st *State, key string, args, results []Val, pos token.Pos) {
	ex.callLog = append(ex.callLog, &CallRec{Guard: st.PC(), Key: key, Args: args, Results: results, Pre: st.clone(), Seq: len(ex.callLog), Pos: pos})
}

// ---- package time: an instant is a signed 64-bit count of nanoseconds since the Unix epoch;
// the zero Time (year 1) is the distinguished value MinInt64 (it is before every other instant).

var timeZero = BVC(new(big.Int).Lsh(big.NewInt(1), 63), 64)

func timeT() types.Type { return timeType }

var timeType types.Type

func satSub(a, b *Term) *Term {
	d := BVBin("bvsub", a, b)
	maxD := BVC(new(big.Int).Sub(new(big.Int).Lsh(big.NewInt(1), 63), big.NewInt(1)), 64)
	minD := timeZero
	// signed overflow: a>=0,b<0,d<0 -> max ; a<0,b>=0,d>=0 -> min
	z := BVI(0, 64)
	ovfPos := And(BVCmp("bvsge", a, z), BVCmp("bvslt", b, z), BVCmp("bvslt", d, z))
	ovfNeg := And(BVCmp("bvslt", a, z), BVCmp("bvsge", b, z), BVCmp("bvsge", d, z))
	r := Ite(ovfPos, maxD, Ite(ovfNeg, minD, d))
	// zero Time operands: the true distance exceeds the Duration range
	aZ, bZ := Eq(a, timeZero), Eq(b, timeZero)
	return Ite(And(aZ, bZ), z, Ite(aZ, minD, Ite(bZ, maxD, r)))
}

func initTimeSpecs() {
	ret := func(fn *ssa.Function, t *Term) []Val {
		return []Val{scalar(fn.Signature.Results().At(0).Type(), t)}
	}
	trustedSpecs["(time.Time).Sub"] = func(ex *Exec, fr *Frame, st *State, fn *ssa.Function, args []Val, pos token.Pos) []Val {
		return ret(fn, satSub(args[0].Term(), args[1].Term()))
	}
	trustedSpecs["(time.Time).Add"] = func(ex *Exec, fr *Frame, st *State, fn *ssa.Function, args []Val, pos token.Pos) []Val {
		return ret(fn, BVBin("bvadd", args[0].Term(), args[1].Term()))
	}
	trustedSpecs["(time.Time).Before"] = func(ex *Exec, fr *Frame, st *State, fn *ssa.Function, args []Val, pos token.Pos) []Val {
		return ret(fn, BVCmp("bvslt", args[0].Term(), args[1].Term()))
	}
	trustedSpecs["(time.Time).After"] = func(ex *Exec, fr *Frame, st *State, fn *ssa.Function, args []Val, pos token.Pos) []Val {
		return ret(fn, BVCmp("bvsgt", args[0].Term(), args[1].Term()))
	}
	trustedSpecs["(time.Time).Equal"] = func(ex *Exec, fr *Frame, st *State, fn *ssa.Function, args []Val, pos token.Pos) []Val {
		return ret(fn, Eq(args[0].Term(), args[1].Term()))
	}
	trustedSpecs["(time.Time).IsZero"] = func(ex *Exec, fr *Frame, st *State, fn *ssa.Function, args []Val, pos token.Pos) []Val {
		return ret(fn, Eq(args[0].Term(), timeZero))
	}
	trustedSpecs["(time.Time).UnixNano"] = func(ex *Exec, fr *Frame, st *State, fn *ssa.Function, args []Val, pos token.Pos) []Val {
		return ret(fn, args[0].Term())
	}
	trustedSpecs["time.Now"] = func(ex *Exec, fr *Frame, st *State, fn *ssa.Function, args []Val, pos token.Pos) []Val {
		t := FreshVar("now", BVS(64))
		ex.assume(st, And(BVCmp("bvsle", BVI(0, 64), t), BVCmp("bvslt", t, BVI(1<<62, 64))))
		return ret(fn, t)
	}
	trustedSpecs["time.Since"] = func(ex *Exec, fr *Frame, st *State, fn *ssa.Function, args []Val, pos token.Pos) []Val {
		t := FreshVar("now", BVS(64))
		ex.assume(st, And(BVCmp("bvsle", BVI(0, 64), t), BVCmp("bvslt", t, BVI(1<<62, 64))))
		return ret(fn, satSub(t, args[0].Term()))
	}
	trustedSpecs["time.Unix"] = func(ex *Exec, fr *Frame, st *State, fn *ssa.Function, args []Val, pos token.Pos) []Val {
		return ret(fn, BVBin("bvadd", BVBin("bvmul", args[0].Term(), BVI(1000000000, 64)), args[1].Term()))
	}
}

// lockEvent updates the ghost lock state: 0 free, -1 write-locked, n>0 read-locked n times.
func (ex *Exec) lockEvent(fr *Frame, st *State, loc *Loc, op string, pos token.Pos) {
	cur := st.load(loc).L[0]
	var nv *Term
	switch op {
	case "Lock":
		nv = IntC(-1)
	case "Unlock":
		nv = IntC(0)
	case "RLock":
		nv = IntC(1)
	case "RUnlock":
		nv = IntC(0)
	}
	_ = cur
	st.store(loc, Val{T: loc.T, L: []*Term{nv}})
}
