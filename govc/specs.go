package main

// Trusted specifications of external functions (assumed contracts; every use is reported in the evidence).

import (
	"go/token"
	"go/types"

	"golang.org/x/tools/go/ssa"
)

type specHandler func(ex *Exec, fr *Frame, st *State, fn *ssa.Function, args []Val, pos token.Pos) []Val

var trustedSpecs = map[string]specHandler{}

func init() {
	lockSet := func(v int64) specHandler {
		return func(ex *Exec, fr *Frame, st *State, fn *ssa.Function, args []Val, pos token.Pos) []Val {
			loc := ex.locOf(args[0])
			ex.lockEvent(fr, st, loc, fn.Name(), pos)
			return nil
		}
	}
	for _, n := range []string{"Lock", "Unlock", "RLock", "RUnlock"} {
		trustedSpecs["(*sync.RWMutex)."+n] = lockSet(0)
	}
	for _, n := range []string{"Lock", "Unlock"} {
		trustedSpecs["(*sync.Mutex)."+n] = lockSet(0)
	}
	trustedSpecs["(*sync.WaitGroup).Add"] = func(ex *Exec, fr *Frame, st *State, fn *ssa.Function, args []Val, pos token.Pos) []Val {
		return nil
	}
	trustedSpecs["(*sync.WaitGroup).Done"] = trustedSpecs["(*sync.WaitGroup).Add"]
	trustedSpecs["(*sync.WaitGroup).Wait"] = func(ex *Exec, fr *Frame, st *State, fn *ssa.Function, args []Val, pos token.Pos) []Val {
		loc := ex.locOf(args[0])
		st.store(loc, Val{T: loc.T, L: []*Term{IntC(1)}}) // ghost: waited
		return nil
	}
	newErr := func(ex *Exec, fr *Frame, st *State, fn *ssa.Function, args []Val, pos token.Pos) []Val {
		ref := st.newRef()
		tag := IntC(int64(ex.ld.typeTag(types.NewPointer(ex.ld.errorStringType()))))
		return []Val{{T: fn.Signature.Results().At(0).Type(), L: []*Term{tag, ref}}}
	}
	trustedSpecs["fmt.Errorf"] = newErr
	trustedSpecs["errors.New"] = newErr
	trustedSpecs["fmt.Sprintf"] = func(ex *Exec, fr *Frame, st *State, fn *ssa.Function, args []Val, pos token.Pos) []Val {
		return []Val{scalar(types.Typ[types.String], FreshVar("str", IntS))}
	}
	trustedSpecs["fmt.Sprint"] = trustedSpecs["fmt.Sprintf"]
}

// lockEvent updates the ghost lock state: 0 free, -1 write-locked, n>0 read-locked n times.
func (ex *Exec) lockEvent(fr *Frame, st *State, loc *Loc, op string, pos token.Pos) {
	cur := st.load(loc).L[0]
	var nv *Term
	switch op {
	case "Lock":
		nv = IntC(-1)
	case "Unlock":
		nv = IntC(0)
	case "RLock":
		nv = IntC(1)
	case "RUnlock":
		nv = IntC(0)
	}
	_ = cur
	st.store(loc, Val{T: loc.T, L: []*Term{nv}})
}
