package main

import (
	"encoding/json"
	"flag"
	"fmt"
	"os"
	"path/filepath"
	"sort"
	"strings"
	"sync"
	"time"
)

var (
	verifRoot = "/verif"
	repoRoot  = "/repo"
)

func main() {
	if len(os.Args) < 2 {
		fmt.Fprintln(os.Stderr, "usage: govc check <id> [--tier quick|thorough] | func <key>... | list <pattern> | replay <file>")
		os.Exit(2)
	}
	if v := os.Getenv("GOVC_ROOT"); v != "" {
		verifRoot = v
	}
	if v := os.Getenv("GOVC_REPO"); v != "" {
		repoRoot = v
	}
	switch os.Args[1] {
	case "func":
		cmdFunc(os.Args[2:])
	case "list":
		cmdList(os.Args[2:])
	case "check":
		os.Exit(cmdCheck(os.Args[2:]))
	case "replay":
		os.Exit(cmdReplay(os.Args[2:]))
	case "selftest":
		os.Exit(cmdSelftest(os.Args[2:]))
	default:
		fmt.Fprintln(os.Stderr, "unknown command", os.Args[1])
		os.Exit(2)
	}
}

func cmdList(args []string) {
	pat := "./..."
	if len(args) > 0 {
		pat = args[0]
	}
	ld, err := loadRepo(repoRoot, []string{pat})
	if err != nil {
		fmt.Fprintln(os.Stderr, err)
		os.Exit(2)
	}
	var ks []string
	for k := range ld.funcIndex {
		ks = append(ks, k)
	}
	sort.Strings(ks)
	for _, k := range ks {
		fmt.Println(k)
	}
}

// solveAll discharges obligations in parallel.
func solveAll(obs []*Obligation, dir string, timeoutS int, keep bool) {
	var wg sync.WaitGroup
	sem := make(chan struct{}, 6)
	for _, o := range obs {
		if !o.Cover && o.Goal != nil && o.Goal.Op == "true" {
			o.Res = SolveResult{Status: "unsat", Solver: "syntactic"}
			continue
		}
		wg.Add(1)
		go func(o *Obligation) {
			defer wg.Done()
			sem <- struct{}{}
			defer func() { <-sem }()
			q := &Query{Hyps: o.Hyps, Goal: o.Goal}
			if o.Cover {
				q.Goal = nil
			}
			o.File = writeQuery(dir, o.Name, q.Script(nil))
			only := ""
			if o.Cover {
				only = "z3-new"
			}
			o.Res = RunPortfolio(o.File, timeoutS, only)
			if !keep && ((o.Res.Status == "unsat" && !o.Cover) || (o.Cover && o.Res.Status == "sat")) {
				os.Remove(o.File)
			}
		}(o)
	}
	wg.Wait()
}

func (o *Obligation) ok() bool {
	if o.Cover {
		return o.Res.Status == "sat"
	}
	return o.Res.Status == "unsat"
}

func cmdFunc(args []string) {
	fs := flag.NewFlagSet("func", flag.ExitOnError)
	timeout := fs.Int("timeout", 10, "solver timeout (s)")
	verbose := fs.Bool("v", false, "list every obligation")
	keep := fs.Bool("keep", false, "keep smt files")
	pkgs := fs.String("pkgs", "./...", "package patterns (comma separated)")
	fs.Parse(args)
	t0 := time.Now()
	ld, err := loadRepo(repoRoot, strings.Split(*pkgs, ","))
	if err != nil {
		fmt.Fprintln(os.Stderr, err)
		os.Exit(2)
	}
	fmt.Printf("loaded in %.1fs\n", time.Since(t0).Seconds())
	bad := 0
	for _, key := range fs.Args() {
		var res *FuncResult
		if strings.HasPrefix(key, "lemma:") {
			l := ld.findLemma(key[6:])
			if l == nil {
				fmt.Println("no such lemma", key)
				bad++
				continue
			}
			res = ld.verifyLemma(l)
		} else {
			fn := ld.funcIndex[key]
			if fn == nil {
				fmt.Println("no such function", key)
				bad++
				continue
			}
			res = ld.verifyFunc(fn)
		}
		if res.Unsupported != "" {
			fmt.Printf("UNSUPPORTED %s: %s\n", key, res.Unsupported)
			bad++
			continue
		}
		t1 := time.Now()
		solveAll(res.Obs, filepath.Join(verifRoot, "work", "func"), *timeout, *keep)
		nok := 0
		for _, o := range res.Obs {
			if o.ok() {
				nok++
			}
			if *verbose || !o.ok() {
				fmt.Printf("  %-8s %-7s %5.2fs %s   {%s}\n", o.Res.Status, o.Res.Solver, o.Res.Secs, o.Name, o.Src)
				if !o.ok() {
					fmt.Printf("           file=%s %v\n", o.File, o.Res.PerSolver)
				}
			}
		}
		fmt.Printf("%s: %d/%d obligations ok (%.1fs) trusted=%v havoc=%v notes=%v\n", key, nok, len(res.Obs), time.Since(t1).Seconds(), res.Trusted, res.Havoced, res.Notes)
		if nok != len(res.Obs) {
			bad++
		}
	}
	if bad > 0 {
		os.Exit(1)
	}
}

func writeJSON(path string, v interface{}) error {
	b, err := json.MarshalIndent(v, "", " ")
	if err != nil {
		return err
	}
	os.MkdirAll(filepath.Dir(path), 0o755)
	return os.WriteFile(path, append(b, '\n'), 0o644)
}
