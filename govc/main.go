package main

import (
	"encoding/json"
	"flag"
	"fmt"
	"os"
	"path/filepath"
	"sort"
	"strings"
	"sync"
	"time"
)

var (
	verifRoot = "/verif"
	repoRoot  = "/repo"
)

func main() {
	if len(os.Args) < 2 {
		fmt.Fprintln(os.Stderr, "usage: govc check <id> [--tier quick|thorough] | func <key>... | list <pattern> | replay <file>")
		os.Exit(2)
	}
	if v := os.Getenv("GOVC_ROOT"); v != "" {
		verifRoot = v
	}
	if v := os.Getenv("GOVC_REPO"); v != "" {
		repoRoot = v
	}
	switch os.Args[1] {
	case "func":
		cmdFunc(os.Args[2:])
	case "list":
		cmdList(os.Args[2:])
	case "check":
		os.Exit(cmdCheck(os.Args[2:]))
	case "replay":
		os.Exit(cmdReplay(os.Args[2:]))
	case "sweep":
		cmdSweep(os.Args[2:])
	case "selftest":
		os.Exit(cmdSelftest(os.Args[2:]))
	default:
		fmt.Fprintln(os.Stderr, "unknown command", os.Args[1])
		os.Exit(2)
	}
}

func cmdList(args []string) {
	pat := "./..."
	if len(args) > 0 {
		pat = args[0]
	}
	ld, err := loadRepo(repoRoot, []string{pat})
	if err != nil {
		fmt.Fprintln(os.Stderr, err)
		os.Exit(2)
	}
	var ks []string
	for k := range ld.funcIndex {
		ks = append(ks, k)
	}
	sort.Strings(ks)
	for _, k := range ks {
		fmt.Println(k)
	}
}

// solveAll discharges obligations in parallel.
func solveAll(obs []*Obligation, dir string, timeoutS int, keep bool) {
	var wg sync.WaitGroup
	sem := make(chan struct{}, 6)
	for _, o := range obs {
		if !o.Cover && o.Goal != nil && o.Goal.Op == "true" {
			o.Res = SolveResult{Status: "unsat", Solver: "syntactic"}
			continue
		}
		wg.Add(1)
		go func(o *Obligation) {
			defer wg.Done()
			sem <- struct{}{}
			defer func() { <-sem }()
			q := &Query{Hyps: o.Hyps, Goal: o.Goal}
			if o.Cover {
				q.Goal = nil
			}
			// overall budget for the staged attempts (the final full query always gets its own timeout)
			t0 := time.Now()
			over := func() bool { return budgetElapsed(t0) > float64(timeoutS) }
			o.File = writeQuery(dir, o.Name, q.Script(nil))
			if o.Cover {
				// vacuity guard: hypotheses must be satisfiable. Quantified hypotheses make "sat" hard to
				// establish, so fall back to the quantifier-free part (a weaker, still useful, guard).
				ct := timeoutS
				if ct > 8 {
					ct = 8
				}
				if strings.Contains(o.Name, "#cover:branch:") && ct > 4 {
					ct = 4
				}
				o.Res = RunPortfolio(o.File, ct, "z3-new")
				if o.Res.Status != "sat" && o.Res.Status != "unsat" {
					var qf []*Term
					for _, h := range o.Hyps {
						if !hasQuantifier(h) {
							qf = append(qf, h)
						}
					}
					q2 := &Query{Hyps: qf}
					o.File = writeQuery(dir, o.Name+".qf", q2.Script(nil))
					r2 := RunPortfolio(o.File, ct, "z3-new")
					if r2.Status == "sat" {
						r2.Solver = "z3-new(qf-part)"
						o.Res = r2
					} else {
						o.Res.Status = "inconclusive"
					}
				}
			} else {
				qf, full := q.Instantiated(0)
				done := false
				defer func() { o.Wall = time.Since(t0).Seconds() }()
				// a proof found earlier names the hypotheses it used: try exactly those first (see hints.go)
				if r, ok := tryHints(o.Name, q, dir, 10, keep); ok {
					o.Res = r
					done = true
				}
				// cheapest attempt first: only the quantifier-free hypotheses connected to the goal through scalar symbols
				if !done && (len(o.Hyps) > 150 || hasHardArith(o.Goal)) {
					if sl := q.Sliced(sliceRounds()); sl != nil {
						f := writeQuery(dir, o.Name+".slice", sl.Script(nil))
						r := RunPortfolio(f, 10, "")
						if r.Status == "unsat" {
							r.Solver += "+slice"
							o.Res = r
							done = true
						}
						if !keep {
							os.Remove(f)
						}
						if !done {
							// arithmetic goals: array reads abstracted to scalars, with the integer-translating back end
							for _, abs := range []bool{false, true} {
								sc := sl.Scalarized(abs)
								if sc == nil || done {
									break
								}
								sfx := ".scalar"
								if abs {
									sfx = ".scalar-abs"
								}
								f2 := writeQuery(dir, o.Name+sfx, sc.Script(nil))
								r2 := RunPortfolio(f2, 10, "+int")
								if r2.Status == "unsat" {
									r2.Solver += "+" + sfx[1:]
									o.Res = r2
									done = true
								}
								if !keep {
									os.Remove(f2)
								}
							}
						}
					}
				}
				// small obligations: the plainly instantiated query first (one cheap call)
				if !done && qf != nil && len(qf.Hyps) <= 300 {
					f := writeQuery(dir, o.Name+".inst0", qf.Script(nil))
					r := RunPortfolio(f, 3, "")
					if r.Status == "unsat" {
						r.Solver += "+inst0"
						o.Res = r
						done = true
					}
					if !keep {
						os.Remove(f)
					}
				}
				// the full query, briefly: the solvers' own quantifier handling often settles small obligations at once
				if !done && len(o.Hyps) <= 400 {
					f := writeQuery(dir, o.Name+".full0", full.Script(nil))
					r := RunPortfolio(f, 5, "")
					if r.Status == "unsat" {
						r.Solver += "+full0"
						o.Res = r
						done = true
					}
					if !keep {
						os.Remove(f)
					}
				}
				// the two smallest stages of goal-directed trigger matching, briefly
				dstages := []*Query(nil)
				var slowStage *Query
				slowName := ""
				if !done && os.Getenv("GOVC_NODINST") == "" {
					dstages = q.DirectedStages(dinstRounds())
					for si, dq := range dstages {
						if done || si >= 2 {
							break
						}
						sfx := fmt.Sprintf(".dinst%d", si)
						if os.Getenv("GOVC_NONORM") == "" {
							dq = dq.Normalized()
						}
						f := writeQuery(dir, o.Name+sfx, dq.Script(nil))
						r := RunPortfolio(f, 10, "")
						if r.Status == "unsat" {
							r.Solver += "+" + sfx[1:]
							o.Res = r
							done = true
						} else if r.Status != "sat" && slowStage == nil {
							// undecided, not refuted: worth a patient second attempt at the end
							slowStage, slowName = dq, sfx
						}
						if !keep {
							os.Remove(f)
						}
					}
				}
				// counterexample-guided hypothesis selection over the quantifier-free hypotheses and directed instances
				if !done && !over() && os.Getenv("GOVC_NOLAZY") == "" {
					if lg, lc := q.LazyCandidates(dinstRounds()); lg != nil && len(lc) > 0 {
						ct := timeoutS
						if ct > 10 {
							ct = 10
						}
						lc0 := lc
						if os.Getenv("GOVC_NONORM") == "" {
							nq := (&Query{Hyps: lc, Goal: lg}).Normalized()
							lg, lc = nq.Goal, nq.Hyps
						}
						dl := budgetDeadline(t0, float64(timeoutS)/2)
						var hints []*Term
						if o.ex != nil {
							hints = o.ex.splitHints
						}
						if os.Getenv("GOVC_NONORM") == "" && len(hints) > 0 {
							// the hints must be in the same normal form as the goal
							nn := newNormalizer()
							sub := topLevelEqs(lc0)
							var hs []*Term
							for _, h := range hints {
								if len(sub) > 0 {
									h = Subst(h, sub)
								}
								hs = append(hs, nn.norm(h))
							}
							hints = hs
						}
						r := lazySplit(lg, lc, q.Extra, q.FPMode, dir, o.Name, ct, 60, keep, 2, dl, hints)
						if r.Status == "unsat" {
							o.Res = r
							done = true
						} else if ab := (&Query{Hyps: lc, Goal: lg}).AbstractArith(); ab != nil {
							// the same with multiplication/division/remainder as uninterpreted functions
							r2 := lazySplit(ab.Goal, ab.Hyps, q.Extra, q.FPMode, dir, o.Name+".abs", ct, 60, keep, 1, budgetDeadline(dl, float64(timeoutS)/4), nil)
							if r2.Status == "unsat" {
								r2.Solver += "+abs"
								o.Res = r2
								done = true
							}
						}
					}
				}
				// goal-directed trigger matching first: small queries, growing
				if !done && os.Getenv("GOVC_NODINST") == "" {
					for si, dq := range q.DirectedStages(dinstRounds()) {
						if done {
							break
						}
						ct := timeoutS
						if ct > 10 {
							ct = 10
						}
						sfx := fmt.Sprintf(".dinst%d", si)
						if os.Getenv("GOVC_NONORM") == "" {
							dq = dq.Normalized()
						}
						f := writeQuery(dir, o.Name+sfx, dq.Script(nil))
						r := RunPortfolio(f, ct, "")
						if r.Status == "unsat" {
							r.Solver += "+" + sfx[1:]
							o.Res = r
							done = true
						}
						if !keep {
							os.Remove(f)
						}
						if !done && r.Status != "sat" {
							if ab := dq.AbstractArith(); ab != nil {
								fa := writeQuery(dir, o.Name+sfx+"_abs", ab.Script(nil))
								ra := RunPortfolio(fa, ct, "")
								if ra.Status == "unsat" {
									ra.Solver += "+" + sfx[1:] + "-abs"
									o.Res = ra
									done = true
								}
								if !keep {
									os.Remove(fa)
								}
							}
						}
					}
				}
				for round := 0; round < 3 && !done && qf != nil && !over(); round++ {
					suffix := ".inst"
					if round >= 1 {
						// further attempts: also instantiate at sub-terms of index expressions, then at width casts
						qf, _ = q.Instantiated(round)
						suffix = fmt.Sprintf(".inst%d", round+1)
						if qf == nil {
							break
						}
					}
					f := writeQuery(dir, o.Name+suffix, qf.Script(nil))
					ct := timeoutS
					if ct > 20 {
						ct = 20
					}
					r := RunPortfolio(f, ct, "")
					if r.Status == "unsat" {
						r.Solver += "+inst"
						o.Res = r
						done = true
					}
					if !keep {
						os.Remove(f)
					}
					if !done && r.Status != "sat" {
						// same query with multiplication/division abstracted to uninterpreted functions
						if ab := qf.AbstractArith(); ab != nil {
							fa := writeQuery(dir, o.Name+suffix+"-abs", ab.Script(nil))
							ra := RunPortfolio(fa, ct, "")
							if ra.Status == "unsat" {
								ra.Solver += "+inst-abs"
								o.Res = ra
								done = true
							}
							if !keep {
								os.Remove(fa)
							}
						}
					}
				}
				if !done && slowStage != nil {
					// a small stage that was neither proved nor refuted in its short slot gets the full time once
					f := writeQuery(dir, o.Name+slowName+"_long", slowStage.Script(nil))
					r := RunPortfolio(f, timeoutS, "")
					if r.Status == "unsat" {
						r.Solver += "+" + slowName[1:] + "-long"
						o.Res = r
						done = true
					}
					if !keep {
						os.Remove(f)
					}
				}
				if !done {
					// the full query (quantified hypotheses and all instances); less time when the stages already used theirs
					ft := timeoutS
					if over() && ft > 20 {
						ft = ft / 2
					}
					o.File = writeQuery(dir, o.Name, full.Script(nil))
					o.Res = RunPortfolio(o.File, ft, "")
				}
			}
			if !keep && ((o.Res.Status == "unsat" && !o.Cover) || (o.Cover && o.Res.Status == "sat")) {
				os.Remove(o.File)
			}
		}(o)
	}
	wg.Wait()
}

func (o *Obligation) ok() bool {
	if o.Cover {
		return o.Res.Status == "sat"
	}
	return o.Res.Status == "unsat"
}

// failed: a definite or undecided proof obligation, or a cover that is definitely unsatisfiable.
func (o *Obligation) failed() bool {
	if o.Cover {
		return o.Res.Status == "unsat"
	}
	return o.Res.Status != "unsat"
}

func hasQuantifier(t *Term) bool {
	seen := map[*Term]bool{}
	var rec func(t *Term) bool
	rec = func(t *Term) bool {
		if seen[t] {
			return false
		}
		seen[t] = true
		if t.Op == "forall" || t.Op == "exists" {
			return true
		}
		for _, a := range t.Args {
			if rec(a) {
				return true
			}
		}
		return false
	}
	return rec(t)
}

func cmdFunc(args []string) {
	fs := flag.NewFlagSet("func", flag.ExitOnError)
	timeout := fs.Int("timeout", 10, "solver timeout (s)")
	verbose := fs.Bool("v", false, "list every obligation")
	keep := fs.Bool("keep", false, "keep smt files")
	pkgs := fs.String("pkgs", "./...", "package patterns (comma separated)")
	only := fs.String("only", "", "solve only the obligations whose name contains this")
	rec := fs.Bool("record-hints", false, "record proof hints for the selected obligations (whatever the staged pipeline said)")
	fs.Parse(args)
	t0 := time.Now()
	ld, err := loadRepo(repoRoot, strings.Split(*pkgs, ","))
	if err != nil {
		fmt.Fprintln(os.Stderr, err)
		os.Exit(2)
	}
	fmt.Printf("loaded in %.1fs\n", time.Since(t0).Seconds())
	bad := 0
	for _, key := range fs.Args() {
		var res *FuncResult
		if strings.HasPrefix(key, "lemma:") {
			l := ld.findLemma(key[6:])
			if l == nil {
				fmt.Println("no such lemma", key)
				bad++
				continue
			}
			res = ld.verifyLemma(l)
		} else {
			fn := ld.funcIndex[key]
			if fn == nil {
				fmt.Println("no such function", key)
				bad++
				continue
			}
			res = ld.verifyFunc(fn)
		}
		if res.Unsupported != "" {
			fmt.Printf("UNSUPPORTED %s: %s\n", key, res.Unsupported)
			bad++
			continue
		}
		t1 := time.Now()
		if *only != "" {
			var sel []*Obligation
			for _, o := range res.Obs {
				if strings.Contains(o.Name, *only) {
					sel = append(sel, o)
				}
			}
			res.Obs = sel
		}
		if *rec {
			for _, o := range res.Obs {
				recordHintFor(o, filepath.Join(verifRoot, "work", "func"))
			}
			saveHints()
			fmt.Printf("hints recorded: %d\n", len(newHints))
			continue
		}
		solveAll(res.Obs, filepath.Join(verifRoot, "work", "func"), *timeout, *keep)
		nok := 0
		for _, o := range res.Obs {
			if o.ok() {
				nok++
			}
			if *verbose || o.failed() {
				fmt.Printf("  %-8s %-7s %5.2fs %s   {%s}\n", o.Res.Status, o.Res.Solver, o.Res.Secs, o.Name, o.Src)
				if o.failed() {
					fmt.Printf("           file=%s %v\n", o.File, o.Res.PerSolver)
				}
			}
		}
		fmt.Printf("%s: %d/%d obligations ok (%.1fs) trusted=%v havoc=%v notes=%v\n", key, nok, len(res.Obs), time.Since(t1).Seconds(), res.Trusted, res.Havoced, res.Notes)
		if nok != len(res.Obs) {
			bad++
		}
	}
	if bad > 0 {
		os.Exit(1)
	}
}

func writeJSON(path string, v interface{}) error {
	b, err := json.MarshalIndent(v, "", " ")
	if err != nil {
		return err
	}
	os.MkdirAll(filepath.Dir(path), 0o755)
	return os.WriteFile(path, append(b, '\n'), 0o644)
}

func sliceRounds() int {
	if v := os.Getenv("GOVC_SLICE"); v != "" {
		n := 0
		fmt.Sscanf(v, "%d", &n)
		return n
	}
	return 3
}

// hasHardArith: division / remainder / multiplication by something other than a constant power of two.
func hasHardArith(t *Term) bool {
	if t == nil {
		return false
	}
	seen := map[*Term]bool{}
	var rec func(t *Term) bool
	rec = func(t *Term) bool {
		if seen[t] {
			return false
		}
		seen[t] = true
		switch t.Op {
		case "bvsdiv", "bvudiv", "bvsrem", "bvurem", "bvmul":
			return true
		}
		for _, a := range t.Args {
			if rec(a) {
				return true
			}
		}
		return false
	}
	return rec(t)
}

func dinstRounds() int {
	if s := os.Getenv("GOVC_DROUNDS"); s != "" {
		n := 0
		fmt.Sscanf(s, "%d", &n)
		if n > 0 {
			return n
		}
	}
	return 3
}
