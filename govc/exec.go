package main

// Forward symbolic execution of go/ssa functions, generating obligations.

import (
	"fmt"
	"os"
	"path/filepath"
	"go/ast"
	"go/token"
	"go/types"
	"sort"
	"strings"

	"golang.org/x/tools/go/ssa"
)

type Obligation struct {
	Name  string
	Kind  string // safety, post, pre, inv, loop, frame, lemma, cover, own, lock
	Fn    string
	Pos   token.Position
	Src   string
	Hyps  []*Term
	Goal  *Term
	Cover bool // must be SAT (hyps satisfiable)
	Res   SolveResult
	File  string
	Wall  float64 // seconds spent on this obligation, all stages
	// for replay
	ex      *Exec
	st      *State
	results []Val
}

type nameRec struct {
	name   string
	obj    types.Object
	block  *ssa.BasicBlock
	val    ssa.Value
	isAddr bool
}

type deferRec struct {
	call  *ssa.CallCommon
	guard *Term
	instr *ssa.Defer
}

type retPoint struct {
	st   *State
	vals []Val
}

type Frame struct {
	fn       *ssa.Function
	regs     map[ssa.Value]Val
	free     []Val
	defers   []*deferRec
	rets     []retPoint
	depth    int
	names    []nameRec
	fc       *FuncContract
	loopOrd  map[*ssa.BasicBlock]int
	label    string
	parent   *Frame
	curBlock *ssa.BasicBlock
	panicked bool
}

type CallRec struct {
	Guard   *Term
	Key     string // e.g. "reader.Read" or callee description
	Recv    Val
	Args    []Val
	Results []Val
	Pre     *State
	Post    *State
	Seq     int
	Pos     token.Pos
}

type Options struct {
	CheckNil   bool
	InlineMax  int
	NoOverflow bool
}

type Exec struct {
	calleeWholeKeys map[string]bool // state keys some callee contract modifies wholesale (mem T, all T.f)
	logFrom    int // call-log queries only see records from this index on (per-iteration clauses of loops)
	splitHints []*Term // conditions worth a case split when proving (e.g. append fits / reallocates)
	ld          *Loaded
	top         *ssa.Function
	obs         []*Obligation
	assumptions []*Term
	trustedUsed map[string]bool
	havocCalls  map[string]bool
	notes       []string
	funcIDs     map[*ssa.Function]int
	funcByID    map[int]*ssa.Function
	closures    map[*Term][]Val
	closureFn   map[*Term]*ssa.Function
	callLog     []*CallRec
	entry       *State
	opts        Options
	params      map[string]Val
	spawned     []*CallRec
	sends       []*CallRec
	ownCheck    bool
	nameCount   map[string]int
	recDone     map[*Term]bool
	noOblige    int
	pure        int // > 0 while a Go function is evaluated inside a specification
	modAllCount int
	recDry      int
	borrowed    map[*Term]string // array ids / refs owned by the caller
}

func newExec(ld *Loaded, top *ssa.Function) *Exec {
	return &Exec{ld: ld, top: top, trustedUsed: map[string]bool{}, havocCalls: map[string]bool{},
		funcIDs: map[*ssa.Function]int{}, funcByID: map[int]*ssa.Function{},
		closures: map[*Term][]Val{}, closureFn: map[*Term]*ssa.Function{},
		opts: Options{InlineMax: 12}, params: map[string]Val{}, borrowed: map[*Term]string{}}
}

func (ex *Exec) assume(st *State, fact *Term) {
	if fact.Op == "true" {
		return
	}
	ex.assumptions = append(ex.assumptions, closeOver(Implies(st.PC(), fact)))
}

// splitGoal breaks a goal into conjuncts (through implications) so that each query stays small.
func splitGoal(g *Term) []*Term {
	switch g.Op {
	case "and":
		var out []*Term
		for _, a := range g.Args {
			out = append(out, splitGoal(a)...)
		}
		return out
	case "=>":
		var out []*Term
		for _, c := range splitGoal(g.Args[1]) {
			out = append(out, Implies(g.Args[0], c))
		}
		return out
	case "forall":
		// forall x. (A ==> B && C)  ==  (forall x. A ==> B) && (forall x. A ==> C)
		parts := splitGoal(g.Args[0])
		if len(parts) > 1 {
			var out []*Term
			for _, p := range parts {
				out = append(out, Forall(g.Bound, p))
			}
			return out
		}
	}
	return []*Term{g}
}

func (ex *Exec) oblige(fr *Frame, st *State, kind, name string, pos token.Pos, src string, goal *Term) {
	if st.infeasible() || ex.noOblige > 0 {
		return
	}
	if kind != "safety" {
		if parts := splitGoal(goal); len(parts) > 1 {
			for i, p := range parts {
				ex.oblige1(fr, st, kind, fmt.Sprintf("%s/%d", name, i+1), pos, src, p)
			}
			return
		}
	}
	ex.oblige1(fr, st, kind, name, pos, src, goal)
}

func (ex *Exec) oblige1(fr *Frame, st *State, kind, name string, pos token.Pos, src string, goal *Term) {
	g := goal
	full := ex.fnName(ex.top) + "#" + name
	if fr != nil && fr.label != "" {
		full = ex.fnName(ex.top) + "#" + fr.label + name
	}
	o := &Obligation{Name: full, Kind: kind, Fn: ex.fnName(ex.top), Src: src, Goal: g, ex: ex, st: st}
	if pos.IsValid() {
		o.Pos = ex.ld.fset.Position(pos)
	}
	o.Hyps = append(append([]*Term{}, ex.assumptions...), st.pc...)
	ex.obs = append(ex.obs, o)
}

func (ex *Exec) fnName(f *ssa.Function) string {
	return fnKey(f)
}

func fnKey(f *ssa.Function) string {
	if f == nil {
		return "lemma"
	}
	if f.Pkg == nil && f.Parent() != nil {
		return fnKey(f.Parent()) + "$" + strings.TrimPrefix(f.Name(), f.Parent().Name()+"$")
	}
	if f.Pkg == nil {
		return f.String()
	}
	p := f.Pkg.Pkg.Path()
	p = strings.TrimPrefix(p, "github.com/pion/interceptor/")
	if p == "github.com/pion/interceptor" {
		p = "interceptor"
	}
	return p + "." + f.RelString(f.Pkg.Pkg)
}

func (ex *Exec) srcAt(pos token.Pos) string {
	if !pos.IsValid() {
		return ""
	}
	return ex.ld.exprTextAt(pos)
}

// ------------------------------------------------------------------ values

func (ex *Exec) constVal(c *ssa.Const) Val {
	t := c.Type()
	if c.Value == nil {
		return zeroVal(t)
	}
	switch {
	case isBoolType(t):
		return scalar(t, BoolT(constantBool(c)))
	case isStringType(t):
		return scalar(t, ex.ld.strConst(constantString(c)))
	case isFloatType(t):
		f := c.Float64()
		s := F64S
		if b := t.Underlying().(*types.Basic); b.Kind() == types.Float32 {
			s = F32S
		}
		return scalar(t, FConst(float64bits(f), s))
	}
	if w, _, ok := isIntType(t); ok {
		return scalar(t, BVC(constantBig(c), w))
	}
	panic(unsupported("constant of type " + t.String()))
}

func (ex *Exec) funcRef(f *ssa.Function) *Term {
	id, ok := ex.funcIDs[f]
	if !ok {
		id = len(ex.funcIDs) + 1
		ex.funcIDs[f] = id
		ex.funcByID[id] = f
	}
	t := IntC(int64(-1000000 - id))
	ex.closureFn[t] = f
	return t
}

func (ex *Exec) val(fr *Frame, v ssa.Value) Val {
	switch x := v.(type) {
	case *ssa.Const:
		return ex.constVal(x)
	case *ssa.Function:
		return scalar(x.Type(), ex.funcRef(x))
	case *ssa.Global:
		return scalar(x.Type(), ex.ld.globalRef(x))
	case *ssa.FreeVar:
		for i, fv := range fr.fn.FreeVars {
			if fv == x {
				return fr.free[i]
			}
		}
		panic("free var not found")
	}
	r, ok := fr.regs[v]
	if !ok {
		panic(fmt.Sprintf("value %s (%s) not computed in %s", v.Name(), v, fr.fn))
	}
	return r
}

func (ex *Exec) locOf(v Val) *Loc {
	if v.Loc != nil {
		return v.Loc
	}
	pt, ok := v.T.Underlying().(*types.Pointer)
	if !ok {
		panic("locOf non-pointer " + v.T.String())
	}
	if at, ok := pt.Elem().Underlying().(*types.Array); ok {
		// array objects live in slice memory so that they can be sliced and indexed uniformly
		return &Loc{Mem: true, RootT: at.Elem(), Ref: v.L[0], T: pt.Elem()}
	}
	if ex.ld.elemPtrTypes[typeKey(types.Unalias(pt.Elem()))] {
		p := v.L[0]
		if !p.IsConst() {
			alt := &Loc{Mem: true, RootT: pt.Elem(), Ref: App("ptr_arr", IntS, p), EIdx: App("ptr_idx", BVS(64), p), T: pt.Elem()}
			return &Loc{RootT: pt.Elem(), Ref: p, T: pt.Elem(), Alt: alt, Cond: IntLt(p, IntC(elemPtrBase))}
		}
	}
	return &Loc{RootT: pt.Elem(), Ref: v.L[0], T: pt.Elem()}
}

const elemPtrBase = -10000000

// encodeElemPtr gives a slice-element pointer a first-class (storable) reference value.
func (ex *Exec) encodeElemPtr(st *State, loc *Loc) *Term {
	p := App("elemptr_"+sanitize(normKey(loc.RootT)), IntS, loc.Ref, loc.EIdx)
	ex.assume(st, And(Eq(App("ptr_arr", IntS, p), loc.Ref), Eq(App("ptr_idx", BVS(64), p), loc.EIdx), IntLt(p, IntC(elemPtrBase))))
	return p
}

// refFacts adds heap well-formedness facts for freshly loaded reference leaves.
func (ex *Exec) refFacts(st *State, v Val) {
	l := layoutOf(v.T)
	if len(l.Leaves) > 40 {
		return
	}
	for i, lf := range l.Leaves {
		if lf.Lift > 0 {
			continue
		}
		switch lf.Kind {
		case LRef, LSliceArr, LIfaceVal:
			if v.L[i].IsConst() {
				continue
			}
			bound := st.alloc()
			if t := v.L[i]; ex.entry != nil && t.Op == "select" && t.Args[0].Op == "var" && strings.HasSuffix(t.Args[0].Name, "@0") {
				// read from the untouched entry heap: what an object that existed at entry holds was allocated
				// before the function started. (An object allocated since — e.g. one handed out by a pool — may
				// hold anything allocated so far; stating the entry bound for it contradicts "fresh" facts.)
				if entryAllocated(t.Args[1]) || os.Getenv("GOVC_OLDREF") != "" {
					bound = ex.entry.alloc()
				} else {
					ex.assume(st, Implies(IntLe(t.Args[1], ex.entry.alloc()), IntLe(v.L[i], ex.entry.alloc())))
				}
			}
			ex.assume(st, IntLe(v.L[i], bound))
		case LSliceLen:
			// 0 <= len <= cap, off >= 0 ; lengths below 2^40
			ln, cp, off := v.L[i], v.L[i+1], v.L[i-1]
			// a nil slice has no elements
			ex.assume(st, Implies(Eq(v.L[i-2], IntC(0)), And(Eq(ln, BVI(0, 64)), Eq(cp, BVI(0, 64)))))
			ex.assume(st, And(BVCmp("bvsle", BVI(0, 64), ln), BVCmp("bvsle", ln, cp), BVCmp("bvsle", cp, BVI(1<<40, 64)),
				BVCmp("bvsle", BVI(0, 64), off), BVCmp("bvsle", off, BVI(1<<40, 64))))
		}
	}
}

// entryAllocated: the reference term syntactically denotes nil or an object that existed when the function
// started (a parameter / free variable, a constant, or something read from such an object in the entry heap).
func entryAllocated(t *Term) bool {
	switch {
	case t.IsConst():
		return true
	case t.Op == "var":
		return strings.HasPrefix(t.Name, "p_") || strings.HasPrefix(t.Name, "fv_")
	case t.Op == "select" && t.Args[0].Op == "var" && strings.HasSuffix(t.Args[0].Name, "@0"):
		return entryAllocated(t.Args[1])
	case t.Op == "ite":
		return entryAllocated(t.Args[1]) && entryAllocated(t.Args[2])
	}
	return false
}

// ------------------------------------------------------------------ function execution

func (ex *Exec) newFrame(fn *ssa.Function, parent *Frame) *Frame {
	fr := &Frame{fn: fn, regs: map[ssa.Value]Val{}, parent: parent}
	if parent != nil {
		fr.depth = parent.depth + 1
		fr.label = parent.label
	}
	fr.fc = ex.ld.contractFor(fn)
	return fr
}

type edgeSt struct {
	from *ssa.BasicBlock
	to   *ssa.BasicBlock
	st   *State
}

type loopInfo struct {
	header  *ssa.BasicBlock
	blocks  map[*ssa.BasicBlock]bool
	latches []*ssa.BasicBlock
}

func findLoops(fn *ssa.Function) map[*ssa.BasicBlock]*loopInfo {
	loops := map[*ssa.BasicBlock]*loopInfo{}
	for _, b := range fn.Blocks {
		for _, s := range b.Succs {
			if s.Dominates(b) {
				li := loops[s]
				if li == nil {
					li = &loopInfo{header: s, blocks: map[*ssa.BasicBlock]bool{s: true}}
					loops[s] = li
				}
				li.latches = append(li.latches, b)
				// natural loop: backwards from latch
				var stack []*ssa.BasicBlock
				if !li.blocks[b] {
					li.blocks[b] = true
					stack = append(stack, b)
				}
				for len(stack) > 0 {
					x := stack[len(stack)-1]
					stack = stack[:len(stack)-1]
					for _, p := range x.Preds {
						if !li.blocks[p] {
							li.blocks[p] = true
							stack = append(stack, p)
						}
					}
				}
			}
		}
	}
	return loops
}

func isBackEdge(from, to *ssa.BasicBlock) bool { return to.Dominates(from) }

// rpo of the region's blocks, ignoring back edges, starting from entry.
func regionOrder(entry *ssa.BasicBlock, region map[*ssa.BasicBlock]bool) []*ssa.BasicBlock {
	var post []*ssa.BasicBlock
	seen := map[*ssa.BasicBlock]bool{}
	var dfs func(b *ssa.BasicBlock)
	dfs = func(b *ssa.BasicBlock) {
		seen[b] = true
		for _, s := range b.Succs {
			if !region[s] || seen[s] || isBackEdge(b, s) {
				continue
			}
			dfs(s)
		}
		post = append(post, b)
	}
	dfs(entry)
	for i, j := 0, len(post)-1; i < j; i, j = i+1, j-1 {
		post[i], post[j] = post[j], post[i]
	}
	return post
}

// execFunc runs fn in frame fr from state st; returns merged final state and results.
func (ex *Exec) execFunc(fr *Frame, st *State) (*State, []Val) {
	fn := fr.fn
	if len(fn.Blocks) == 0 {
		panic(unsupported("function without body: " + fn.String()))
	}
	loops := findLoops(fn)
	fr.loopOrd = map[*ssa.BasicBlock]int{}
	var hs []*ssa.BasicBlock
	for h := range loops {
		hs = append(hs, h)
	}
	sort.Slice(hs, func(i, j int) bool { return hs[i].Index < hs[j].Index })
	for i, h := range hs {
		fr.loopOrd[h] = i + 1
	}
	all := map[*ssa.BasicBlock]bool{}
	for _, b := range fn.Blocks {
		all[b] = true
	}
	exits := ex.runRegion(fr, loops, all, fn.Blocks[0], []edgeSt{{nil, fn.Blocks[0], st}}, nil)
	if len(exits) != 0 {
		panic("edges leaving the function region")
	}
	if len(fr.rets) == 0 {
		// function never returns normally (all paths panic / infinite loop)
		dead := st.clone()
		dead.pc = []*Term{False}
		var zs []Val
		res := fn.Signature.Results()
		for i := 0; i < res.Len(); i++ {
			zs = append(zs, zeroVal(res.At(i).Type()))
		}
		return dead, zs
	}
	var sts []*State
	for _, r := range fr.rets {
		sts = append(sts, r.st)
	}
	m, conds := mergeStates(sts)
	nres := len(fr.rets[0].vals)
	out := make([]Val, nres)
	for i := 0; i < nres; i++ {
		var vs []Val
		for _, r := range fr.rets {
			vs = append(vs, r.vals[i])
		}
		out[i] = mergeVals(conds, vs)
	}
	return m, out
}

// runRegion executes the blocks of region starting at entry with the given incoming edges.
// If loopHdr != nil the region is a loop body whose header is entry: edges back to entry are
// returned in latches (via fr) and not followed.
func (ex *Exec) runRegion(fr *Frame, loops map[*ssa.BasicBlock]*loopInfo, region map[*ssa.BasicBlock]bool,
	entry *ssa.BasicBlock, entryEdges []edgeSt, self *loopCtx) (exits []edgeSt) {
	order := regionOrder(entry, region)
	in := map[*ssa.BasicBlock][]edgeSt{}
	in[entry] = entryEdges
	done := map[*ssa.BasicBlock]bool{}
	deliver := func(e edgeSt) {
		if e.st.infeasible() {
			return
		}
		if self != nil && e.to == entry {
			self.latches = append(self.latches, e)
			return
		}
		if !region[e.to] {
			exits = append(exits, e)
			return
		}
		in[e.to] = append(in[e.to], e)
	}
	for _, b := range order {
		if done[b] {
			continue
		}
		edges := in[b]
		if len(edges) == 0 {
			continue
		}
		if li, ok := loops[b]; ok && !(self != nil && b == entry) {
			// inner loop: run it as a unit
			for blk := range li.blocks {
				done[blk] = true
			}
			for _, e := range ex.execLoop(fr, loops, li, edges) {
				deliver(e)
			}
			continue
		}
		done[b] = true
		var st *State
		if self != nil && b == entry {
			st = edges[0].st // already prepared by execLoop (phis set)
		} else {
			var sts []*State
			for _, e := range edges {
				sts = append(sts, e.st)
			}
			var conds []*Term
			st, conds = mergeStates(sts)
			for _, ins := range b.Instrs {
				phi, ok := ins.(*ssa.Phi)
				if !ok {
					break
				}
				var vs []Val
				for _, e := range edges {
					vs = append(vs, ex.val(fr, phi.Edges[predIndex(b, e.from)]))
				}
				fr.regs[phi] = mergeVals(conds, vs)
				ex.recordName(fr, phi.Comment, nil, b, phi, false)
			}
		}
		for _, e := range ex.execBlock(fr, b, st) {
			deliver(e)
		}
	}
	return exits
}

func predIndex(b, from *ssa.BasicBlock) int {
	for i, p := range b.Preds {
		if p == from {
			return i
		}
	}
	panic("pred not found")
}

type loopCtx struct {
	latches []edgeSt
}

func (ex *Exec) recordName(fr *Frame, name string, obj types.Object, b *ssa.BasicBlock, v ssa.Value, isAddr bool) {
	if name == "" {
		return
	}
	name = strings.ReplaceAll(name, ".", "_") // synthetic names such as rangeint.iter
	fr.names = append(fr.names, nameRec{name: name, obj: obj, block: b, val: v, isAddr: isAddr})
}

// lookupName resolves a source-level variable name at block b.
// spilledParam: go/ssa copies an assigned-to / address-taken parameter into a local cell at entry;
// the variable's current value lives there.
func spilledParam(fr *Frame, name string) (ssa.Value, bool) {
	if len(fr.fn.Blocks) == 0 {
		return nil, false
	}
	for _, ins := range fr.fn.Blocks[0].Instrs {
		if st, ok := ins.(*ssa.Store); ok {
			if p, isP := st.Val.(*ssa.Parameter); isP && p.Name() == name {
				if a, isA := st.Addr.(*ssa.Alloc); isA && a.Comment == name {
					return a, true
				}
			}
		}
	}
	return nil, false
}

func (ex *Exec) lookupName(fr *Frame, name string, b *ssa.BasicBlock, st *State) (Val, bool) {
	if cell, ok := spilledParam(fr, name); ok {
		if cv, has := fr.regs[cell]; has {
			return st.load(ex.locOf(cv)), true
		}
	}
	for i := len(fr.names) - 1; i >= 0; i-- {
		r := fr.names[i]
		if r.name != name {
			continue
		}
		if b != nil && !(r.block == b || r.block.Dominates(b)) {
			continue
		}
		v, ok := fr.regs[r.val]
		if !ok {
			switch r.val.(type) {
			case *ssa.Const, *ssa.Function, *ssa.Global:
				v = ex.val(fr, r.val)
			case *ssa.Parameter:
			default:
				continue
			}
		}
		if r.isAddr {
			return st.load(ex.locOf(v)), true
		}
		return v, true
	}
	for i, p := range fr.fn.Params {
		if p.Name() == name {
			_ = i
			return fr.regs[p], true
		}
	}
	for i, fv := range fr.fn.FreeVars {
		if fv.Name() == name {
			// captured variables are pointers to cells
			v := fr.free[i]
			if _, ok := fv.Type().Underlying().(*types.Pointer); ok {
				return st.load(ex.locOf(v)), true
			}
			return v, true
		}
	}
	return Val{}, false
}

// execLoop handles the natural loop li entered through edges.
func (ex *Exec) execLoop(fr *Frame, loops map[*ssa.BasicBlock]*loopInfo, li *loopInfo, edges []edgeSt) []edgeSt {
	h := li.header
	ord := fr.loopOrd[h]
	var lc *LoopContract
	if fr.fc != nil {
		lc = fr.fc.Loops[ord]
	}
	if lc == nil {
		// no invariant given: the loop is cut with the invariant `true` (sound over-approximation);
		// termination is not proved for it
		lc = &LoopContract{}
		ex.notes = append(ex.notes, fmt.Sprintf("loop %d of %s: no invariant (true); termination not proved", ord, fnKey(fr.fn)))
	}
	lname := fmt.Sprintf("loop%d", ord)
	// entry state and phi entry values
	var sts []*State
	for _, e := range edges {
		sts = append(sts, e.st)
	}
	entrySt, conds := mergeStates(sts)
	var phis []*ssa.Phi
	for _, ins := range h.Instrs {
		if phi, ok := ins.(*ssa.Phi); ok {
			phis = append(phis, phi)
		} else {
			break
		}
	}
	for _, phi := range phis {
		var vs []Val
		for _, e := range edges {
			vs = append(vs, ex.val(fr, phi.Edges[predIndex(h, e.from)]))
		}
		fr.regs[phi] = mergeVals(conds, vs)
		ex.recordName(fr, phi.Comment, nil, h, phi, false)
	}
	// automatic, proved invariant for compiler-generated range counters: -1 <= rangeindex < len
	autoInv := func(st *State) *Term {
		var cs []*Term
		for _, phi := range phis {
			if phi.Comment != "rangeindex" {
				continue
			}
			for _, ins := range h.Instrs {
				cmp, ok := ins.(*ssa.BinOp)
				if !ok || cmp.Op != token.LSS {
					continue
				}
				add, ok := cmp.X.(*ssa.BinOp)
				if !ok || add.Op != token.ADD || add.X != phi {
					continue
				}
				lim, ok := fr.regs[cmp.Y]
				if !ok {
					if c, isC := cmp.Y.(*ssa.Const); isC {
						lim = ex.constVal(c)
					} else {
						continue
					}
				}
				p := fr.regs[phi].Term()
				cs = append(cs, BVCmp("bvsle", BVI(-1, 64), p), BVCmp("bvslt", p, BVBin("bvadd", lim.Term(), BVI(0, 64))), BVCmp("bvsle", BVI(0, 64), lim.Term()))
			}
		}
		return And(cs...)
	}
	// init obligations
	pos := loopPos(h)
	if g := autoInv(entrySt); g.Op != "true" {
		ex.oblige(fr, entrySt, "loop", lname+".init:auto_rangeindex", pos, "-1 <= rangeindex < len", g)
	}
	for _, inv := range lc.Invs {
		env := ex.envAt(fr, entrySt, h)
		g := ex.evalBool(env, inv.E)
		ex.oblige(fr, entrySt, "loop", lname+".init:"+inv.Label, pos, inv.Src, g)
	}
	// iterate to find the write set
	type hv struct {
		whole bool
		idx   []*Term
	}
	havoc := map[string]*hv{}
	var result []edgeSt
	noAuto := false // set when the body calls something that may modify everything (modifies *)
	for pass := 0; pass < 8; pass++ {
		modAll0 := ex.modAllCount
		nObs, nAss, nRets, nNames, nLog := len(ex.obs), len(ex.assumptions), len(fr.rets), len(fr.names), len(ex.callLog)
		nSp, nSe := len(ex.spawned), len(ex.sends)
		mark := currentVarMark()
		st := entrySt.clone()
		// havoc
		keys := make([]string, 0, len(havoc))
		for k := range havoc {
			keys = append(keys, k)
		}
		sort.Strings(keys)
		for _, k := range keys {
			srt := st.sorts[k]
			cur := st.get(k, srt)
			hvk := havoc[k]
			if hvk.whole || srt.K != KArray {
				nv := FreshVar("hv_"+k, srt)
				if k == allocKey {
					ex.assume(st, IntLe(cur, nv))
				}
				st.set(k, nv)
			} else {
				for _, ix := range hvk.idx {
					cur = Store(cur, ix, FreshVar("hv_"+k, srt.B))
				}
				st.set(k, cur)
			}
		}
		for _, phi := range phis {
			fr.regs[phi] = freshVal(phi.Type(), "phi_"+phi.Comment)
			ex.refFacts(st, fr.regs[phi])
		}
		// assume invariants
		ex.assume(st, autoInv(st))
		for _, inv := range lc.Invs {
			env := ex.envAt(fr, st, h)
			t := ex.evalBool(env, inv.E)
			if os.Getenv("GOVC_DEBUG") != "" {
				fmt.Printf("  [assume inv %s.%s pass %d] %s\n", lname, inv.Label, pass, truncate(t.String(), 200))
			}
			ex.assume(st, t)
		}
		// implicit frame invariants for wholly havoced reference-indexed state: objects that existed
		// when the loop was entered are unchanged (assumed at the head, proved at every latch)
		frameInv := func(s *State) []struct {
			key string
			t   *Term
		} {
			var out []struct {
				key string
				t   *Term
			}
			if lc.NoAutoFrame || noAuto {
				return out
			}
			for _, k := range keys {
				srt := s.sorts[k]
				if !havoc[k].whole || srt.K != KArray || srt.A != IntS || k == allocKey {
					continue
				}
				if ex.calleeWholeKeys[k] {
					// a callee's contract may modify every object of this kind (mem T / all T.f): no implicit frame
					continue
				}
				r := BoundVar("fr", IntS)
				body := Implies(IntLe(r, ex.entry.alloc()), Eq(Select(s.get(k, srt), r), Select(entrySt.get(k, srt), r)))
				out = append(out, struct {
					key string
					t   *Term
				}{k, Forall([]*Term{r}, body)})
			}
			return out
		}
		for _, fi := range frameInv(st) {
			ex.assume(st, fi.t)
		}
		headSt := st.clone()
		var measure Val
		if lc.Decreases != nil {
			measure = ex.eval(ex.envAt(fr, headSt, h), lc.Decreases)
		}
		ctx := &loopCtx{}
		logAtHead := len(ex.callLog)
		exits := ex.runRegion(fr, loops, li.blocks, h, []edgeSt{{nil, h, st}}, ctx)
		// discover writes
		grew := false
		addKey := func(k string, final, initial *Term, srt *Sort) {
			if final == initial {
				return
			}
			initial = entrySt.get(k, srt) // stores are collected down to the pre-loop value
			cur := havoc[k]
			if cur != nil && cur.whole {
				return
			}
			var idx []*Term
			ok := srt.K == KArray && collectStoreIdx(final, storeRoot(initial), &idx, mark, 0) &&
				collectStoreIdx(initial, storeRoot(initial), &idx, mark, 0)
			if !ok {
				havoc[k] = &hv{whole: true}
				grew = true
				return
			}
			if cur == nil {
				cur = &hv{}
				havoc[k] = cur
			}
			for _, ix := range idx {
				found := false
				for _, o := range cur.idx {
					if o == ix {
						found = true
					}
				}
				if !found {
					cur.idx = append(cur.idx, ix)
					grew = true
				}
			}
		}
		scan := func(s *State) {
			for k, v := range s.h {
				srt := s.sorts[k]
				addKey(k, v, headSt.get(k, srt), srt)
			}
		}
		for _, e := range ctx.latches {
			scan(e.st)
		}
		for _, e := range exits {
			scan(e.st)
		}
		for _, r := range fr.rets[nRets:] {
			scan(r.st)
		}
		if ex.modAllCount != modAll0 && !noAuto {
			noAuto = true
			grew = true
		}
		if grew {
			// discard this pass
			ex.obs, ex.assumptions, fr.rets, fr.names, ex.callLog = ex.obs[:nObs], ex.assumptions[:nAss], fr.rets[:nRets], fr.names[:nNames], ex.callLog[:nLog]
			ex.spawned, ex.sends = ex.spawned[:nSp], ex.sends[:nSe]
			continue
		}
		// `loop N opt nobreak`: every exit that does not come from the loop's own condition is an obligation
		if lc.NoBreak {
			for _, e := range exits {
				if e.from != h {
					ex.oblige(fr, e.st, "loop", lname+".nobreak", pos, "the loop is left only when its condition ends it (every element is visited)", False)
				}
			}
		}
		// final pass: preservation obligations at the latches
		for _, e := range ctx.latches {
			over := map[string]Val{}
			for _, phi := range phis {
				over[strings.ReplaceAll(phi.Comment, ".", "_")] = ex.val(fr, phi.Edges[predIndex(h, e.from)])
			}
			for _, inv := range lc.Invs {
				env := ex.envAt(fr, e.st, h)
				env.over = over
				env.phiOver = map[ssa.Value]Val{}
				for _, phi := range phis {
					env.phiOver[phi] = over[strings.ReplaceAll(phi.Comment, ".", "_")]
				}
				g := ex.evalBool(env, inv.E)
				ex.oblige(fr, e.st, "loop", lname+".preserve:"+inv.Label, pos, inv.Src, g)
				// later invariants of this loop are proved under the earlier ones (assert, then assume)
				ex.assume(e.st, g)
			}
			_ = 0
			// per-iteration clauses: about the calls recorded since the loop head
			for _, it := range lc.Iters {
				env := ex.envAt(fr, e.st, h)
				env.over = over
				env.phiOver = map[ssa.Value]Val{}
				for _, phi := range phis {
					env.phiOver[phi] = over[strings.ReplaceAll(phi.Comment, ".", "_")]
				}
				saved := ex.logFrom
				ex.logFrom = logAtHead
				g := ex.evalBool(env, it.E)
				ex.logFrom = saved
				ex.oblige(fr, e.st, "loop", lname+".iteration:"+it.Label, pos, it.Src, g)
			}
			{
				saved := map[*ssa.Phi]Val{}
				for _, phi := range phis {
					saved[phi] = fr.regs[phi]
					fr.regs[phi] = over[strings.ReplaceAll(phi.Comment, ".", "_")]
				}
				if g := autoInv(e.st); g.Op != "true" {
					ex.oblige(fr, e.st, "loop", lname+".preserve:auto_rangeindex", pos, "-1 <= rangeindex < len", g)
				}
				for _, phi := range phis {
					fr.regs[phi] = saved[phi]
				}
			}
			for _, fi := range frameInv(e.st) {
				ex.oblige(fr, e.st, "loop", lname+".preserve:frame:"+fi.key, pos, "objects that existed at function entry are not modified by the loop", fi.t)
			}
			if lc.Decreases != nil {
				env := ex.envAt(fr, e.st, h)
				env.over = over
				env.phiOver = map[ssa.Value]Val{}
				for _, phi := range phis {
					env.phiOver[phi] = over[strings.ReplaceAll(phi.Comment, ".", "_")]
				}
				nm := ex.eval(env, lc.Decreases)
				var g *Term
				if _, signed, ok := isIntType(measure.T); ok && !signed {
					g = BVCmp("bvult", nm.Term(), measure.Term())
				} else if ok {
					g = And(BVCmp("bvslt", nm.Term(), measure.Term()), BVCmp("bvsge", measure.Term(), BVI(0, measure.Term().S.W)))
				} else {
					g = And(IntLt(nm.Term(), measure.Term()), IntLe(IntC(0), measure.Term()))
				}
				ex.oblige(fr, e.st, "loop", lname+".decreases", pos, lc.DecSrc, g)
			}
		}
		result = exits
		return result
	}
	panic(unsupported("loop write-set did not stabilise in " + fnKey(fr.fn)))
}

func loopPos(h *ssa.BasicBlock) token.Pos {
	for _, ins := range h.Instrs {
		if ins.Pos().IsValid() {
			return ins.Pos()
		}
	}
	for _, s := range h.Succs {
		for _, ins := range s.Instrs {
			if ins.Pos().IsValid() {
				return ins.Pos()
			}
		}
	}
	return token.NoPos
}

var branchCover = os.Getenv("GOVC_BRANCHCOVER") != ""

func currentVarMark() int {
	termMu.Lock()
	defer termMu.Unlock()
	return varCount
}

// storeRoot strips the leading chain of stores.
func storeRoot(t *Term) *Term {
	for t.Op == "store" {
		t = t.Args[0]
	}
	return t
}

// collectStoreIdx: final must be initial with stores (possibly under ites) at loop-invariant indices.
func collectStoreIdx(final, initial *Term, idx *[]*Term, mark int, depth int) bool {
	if final == initial {
		return true
	}
	if depth > 64 {
		return false
	}
	switch final.Op {
	case "store":
		if !invariantTerm(final.Args[1], mark) {
			return false
		}
		*idx = append(*idx, final.Args[1])
		return collectStoreIdx(final.Args[0], initial, idx, mark, depth+1)
	case "ite":
		return collectStoreIdx(final.Args[1], initial, idx, mark, depth+1) && collectStoreIdx(final.Args[2], initial, idx, mark, depth+1)
	}
	return false
}

// invariantTerm: mentions no variable created after mark.
func invariantTerm(t *Term, mark int) bool {
	ok := true
	seen := map[*Term]bool{}
	var rec func(t *Term)
	rec = func(t *Term) {
		if !ok || seen[t] {
			return
		}
		seen[t] = true
		if t.Op == "var" {
			if i := strings.LastIndexByte(t.Name, '!'); i >= 0 {
				var n int
				fmt.Sscanf(t.Name[i+1:], "%d", &n)
				if n > mark {
					ok = false
				}
			}
			return
		}
		for _, a := range t.Args {
			rec(a)
		}
	}
	rec(t)
	return ok
}

// execBlock executes the non-phi instructions of b; returns outgoing edges.
func (ex *Exec) execBlock(fr *Frame, b *ssa.BasicBlock, st *State) []edgeSt {
	fr.curBlock = b
	for _, ins := range b.Instrs {
		if st.infeasible() {
			return nil
		}
		switch x := ins.(type) {
		case *ssa.Phi:
			continue
		case *ssa.If:
			c := ex.val(fr, x.Cond).Term()
			s1 := st.clone()
			s1.assumePC(c)
			s2 := st
			s2.assumePC(Not(c))
			if branchCover && ex.noOblige == 0 {
				// diagnostic (GOVC_BRANCHCOVER): each side of each branch should be satisfiable together with
				// everything assumed so far; a definitely unsatisfiable side is dead code or a vacuous path
				for i, s := range []*State{s1, s2} {
					if s.infeasible() {
						continue
					}
					pos := ex.ld.fset.Position(x.Cond.Pos())
					nm := fmt.Sprintf("%s#cover:branch:%s%s:%d:%d:%v", fnKey(ex.top), fr.label, filepath.Base(pos.Filename), pos.Line, b.Index, i == 0)
					ex.obs = append(ex.obs, &Obligation{Name: nm, Kind: "cover", Fn: fnKey(ex.top), Cover: true, Pos: pos,
						Hyps: append(append([]*Term{}, ex.assumptions...), s.pc...), ex: ex, st: s})
				}
			}
			return []edgeSt{{b, b.Succs[0], s1}, {b, b.Succs[1], s2}}
		case *ssa.Jump:
			return []edgeSt{{b, b.Succs[0], st}}
		case *ssa.Return:
			var vs []Val
			for _, r := range x.Results {
				vs = append(vs, ex.val(fr, r))
			}
			fr.rets = append(fr.rets, retPoint{st, vs})
			return nil
		case *ssa.Panic:
			ex.oblige(fr, st, "safety", "safety:panic["+ex.srcAt(x.Pos())+"]", x.Pos(), ex.srcAt(x.Pos()), False)
			return nil
		default:
			ex.execInstr(fr, st, ins)
		}
	}
	return nil
}

func (ex *Exec) execInstr(fr *Frame, st *State, ins ssa.Instruction) {
	switch x := ins.(type) {
	case *ssa.DebugRef:
		if id, ok := x.Expr.(*ast.Ident); ok {
			if v, isVar := x.Object().(*types.Var); isVar && !v.IsField() {
				ex.recordName(fr, id.Name, x.Object(), fr.curBlock, x.X, x.IsAddr)
			}
		}
	case *ssa.Alloc:
		t := x.Type().Underlying().(*types.Pointer).Elem()
		ref := st.newRef()
		fr.regs[x] = scalar(x.Type(), ref)
		st.store(ex.locOf(fr.regs[x]), zeroVal(t))
	case *ssa.BinOp:
		fr.regs[x] = ex.binop(fr, st, x.Op, ex.val(fr, x.X), ex.val(fr, x.Y), x.Type(), x.Pos())
	case *ssa.UnOp:
		fr.regs[x] = ex.unop(fr, st, x)
	case *ssa.Convert:
		fr.regs[x] = ex.convert(st, ex.val(fr, x.X), x.Type())
	case *ssa.ChangeType:
		v := ex.val(fr, x.X)
		v.T = x.Type()
		fr.regs[x] = v
	case *ssa.ChangeInterface:
		v := ex.val(fr, x.X)
		v.T = x.Type()
		fr.regs[x] = v
	case *ssa.MakeInterface:
		fr.regs[x] = ex.makeInterface(st, ex.val(fr, x.X), x.Type())
	case *ssa.TypeAssert:
		fr.regs[x] = ex.typeAssert(fr, st, x)
	case *ssa.Extract:
		tv := ex.val(fr, x.Tuple)
		fr.regs[x] = structField(tv, x.Index)
	case *ssa.Field:
		fr.regs[x] = structField(ex.val(fr, x.X), x.Field)
	case *ssa.FieldAddr:
		p := ex.val(fr, x.X)
		ex.nilCheck(fr, st, p, x.Pos(), x.X)
		base := ex.locOf(p)
		lo := layoutOf(base.T)
		f := lo.Fields[x.Field]
		nl := *base
		nl.Off = base.Off + f.Off
		nl.T = f.T
		if base.Alt != nil {
			al := *base.Alt
			al.Off = base.Alt.Off + f.Off
			al.T = f.T
			nl.Alt = &al
		}
		fr.regs[x] = Val{T: x.Type(), Loc: &nl}
	case *ssa.Index:
		xv := ex.val(fr, x.X)
		iv := ex.val(fr, x.Index)
		idx := ex.toInt64(iv)
		if isStringType(xv.T) {
			ex.oblige(fr, st, "safety", "safety:index["+ex.srcAt(x.Pos())+"]", x.Pos(), ex.srcAt(x.Pos()),
				And(BVCmp("bvsle", BVI(0, 64), idx), BVCmp("bvslt", idx, ex.strLen(st, xv.Term()))))
			fr.regs[x] = scalar(x.Type(), App("strbyte", BVS(8), xv.Term(), idx))
			break
		}
		lo := layoutOf(xv.T)
		ex.oblige(fr, st, "safety", "safety:index["+ex.srcAt(x.Pos())+"]", x.Pos(), ex.srcAt(x.Pos()),
			And(BVCmp("bvsle", BVI(0, 64), idx), BVCmp("bvslt", idx, BVI(lo.Len, 64))))
		fr.regs[x] = arrayIndex(xv, idx)
	case *ssa.IndexAddr:
		fr.regs[x] = ex.indexAddr(fr, st, x)
	case *ssa.Slice:
		fr.regs[x] = ex.sliceOp(fr, st, x)
	case *ssa.MakeSlice:
		ln := ex.toInt64(ex.val(fr, x.Len))
		cp := ex.toInt64(ex.val(fr, x.Cap))
		ex.oblige(fr, st, "safety", "safety:makeslice["+ex.srcAt(x.Pos())+"]", x.Pos(), ex.srcAt(x.Pos()),
			And(BVCmp("bvsle", BVI(0, 64), ln), BVCmp("bvsle", ln, cp)))
		fr.regs[x] = ex.makeSlice(st, x.Type(), ln, cp)
	case *ssa.MakeMap:
		fr.regs[x] = ex.makeMap(st, x.Type())
	case *ssa.MakeChan:
		ref := st.newRef()
		fr.regs[x] = scalar(x.Type(), ref)
		st.set("C:closed", Store(st.get("C:closed", ArrS(IntS, BoolS)), ref, False))
	case *ssa.MakeClosure:
		fn := x.Fn.(*ssa.Function)
		ref := st.newRef()
		var bs []Val
		for _, b := range x.Bindings {
			bs = append(bs, ex.val(fr, b))
		}
		ex.closures[ref] = bs
		ex.closureFn[ref] = fn
		fr.regs[x] = scalar(x.Type(), ref)
	case *ssa.Lookup:
		fr.regs[x] = ex.lookup(fr, st, x)
	case *ssa.MapUpdate:
		ex.mapUpdate(fr, st, ex.val(fr, x.Map), ex.val(fr, x.Key), ex.val(fr, x.Value), x.Pos())
	case *ssa.Range:
		xv := ex.val(fr, x.X)
		if _, ok := xv.T.Underlying().(*types.Map); !ok {
			panic(unsupported("range over " + xv.T.String()))
		}
		fr.regs[x] = Val{T: x.Type(), L: []*Term{xv.Term()}}
		// start of an iteration: nothing visited yet
		{
			mi := mapKeys(xv.T)
			vkey := "R:" + mi.dom
			st.set(vkey, Store(st.get(vkey, mi.domSort()), xv.Term(), constN(mi.ks, False)))
			// number of keys produced so far, and the domain at the start of the iteration
			st.set("RC:"+mi.dom, Store(st.get("RC:"+mi.dom, ArrS(IntS, BVS(64))), xv.Term(), BVI(0, 64)))
			st.set("RD:"+mi.dom, st.get(mi.dom, mi.domSort()))
		}
	case *ssa.Next:
		fr.regs[x] = ex.mapNext(fr, st, x)
	case *ssa.Call:
		rs := ex.execCall(fr, st, x.Common(), x, x.Pos())
		fr.regs[x] = packResults(x.Type(), rs)
	case *ssa.Defer:
		fr.defers = append(fr.defers, &deferRec{call: x.Common(), guard: st.PC(), instr: x})
	case *ssa.RunDefers:
		ds := fr.defers
		for i := len(ds) - 1; i >= 0; i-- {
			d := ds[i]
			// the defer was registered iff its guard held on this path
			g := d.guard
			if pcImplies(st, g) {
				ex.execCall(fr, st, d.call, nil, d.instr.Pos())
				continue
			}
			s1 := st.clone()
			s1.assumePC(g)
			ex.execCall(fr, s1, d.call, nil, d.instr.Pos())
			s2 := st.clone()
			s2.assumePC(Not(g))
			if s1.infeasible() {
				*st = *s2
				continue
			}
			m, _ := mergeStates([]*State{s1, s2})
			*st = *m
		}
	case *ssa.Store:
		ex.nilCheck(fr, st, ex.val(fr, x.Addr), x.Pos(), x.Addr)
		v := ex.val(fr, x.Val)
		ex.ownStore(fr, st, ex.val(fr, x.Addr), v, x.Pos())
		st.store(ex.locOf(ex.val(fr, x.Addr)), v)
	case *ssa.Go:
		ex.goStmt(fr, st, x)
	case *ssa.Send:
		ex.sendStmt(fr, st, x)
	case *ssa.Select:
		fr.regs[x] = ex.selectStmt(fr, st, x)
	default:
		panic(unsupported(fmt.Sprintf("instruction %T: %s", ins, ins)))
	}
}

func pcImplies(st *State, g *Term) bool {
	if g.Op == "true" {
		return true
	}
	have := map[*Term]bool{}
	for _, c := range st.pc {
		have[c] = true
	}
	if g.Op == "and" {
		for _, a := range g.Args {
			if !have[a] {
				return false
			}
		}
		return true
	}
	return have[g]
}

func packResults(t types.Type, rs []Val) Val {
	if tup, ok := t.(*types.Tuple); ok {
		v := Val{T: tup}
		for _, r := range rs {
			if r.Loc != nil {
				panic(unsupported("interior pointer in tuple result"))
			}
			v.L = append(v.L, r.L...)
		}
		return v
	}
	if len(rs) == 1 {
		return rs[0]
	}
	return Val{T: t}
}

func (ex *Exec) nilCheck(fr *Frame, st *State, p Val, pos token.Pos, what ssa.Value) {
	if p.Loc != nil {
		return
	}
	ref := p.L[0]
	if ref.Op == "+" || (ref.Op == "intconst" && ref.Name != "0") {
		return
	}
	nz := Not(Eq(ref, IntC(0)))
	if ex.opts.CheckNil {
		ex.oblige(fr, st, "safety", "safety:nil["+what.Name()+":"+ex.srcAt(pos)+"]", pos, ex.srcAt(pos), nz)
	}
	// after the dereference the pointer is known non-nil - on the program's own paths only. A Go function evaluated
	// inside a specification (pureCall) has no path condition of its own: assuming here would state "non-nil"
	// unconditionally, although the call may sit under an antecedent (`err == nil ==> h.MarshalSize() <= n`).
	if ex.pure > 0 {
		return
	}
	ex.assume(st, nz)
}

// toInt64 converts an integer value of any width to a BV64 by its signedness.
func (ex *Exec) toInt64(v Val) *Term {
	w, signed, ok := isIntType(v.T)
	if !ok {
		panic("toInt64 of " + v.T.String())
	}
	if w == 64 {
		return v.Term()
	}
	if signed {
		return SignExt(v.Term(), 64)
	}
	return ZeroExt(v.Term(), 64)
}

func (ex *Exec) indexAddr(fr *Frame, st *State, x *ssa.IndexAddr) Val {
	xv := ex.val(fr, x.X)
	idx := ex.toInt64(ex.val(fr, x.Index))
	src := ex.srcAt(x.Pos())
	switch u := xv.T.Underlying().(type) {
	case *types.Slice:
		ex.oblige(fr, st, "safety", "safety:index["+src+"]", x.Pos(), src,
			And(BVCmp("bvsle", BVI(0, 64), idx), BVCmp("bvslt", idx, sliceLen(xv))))
		el := sliceElemLoc(xv, idx)
		if ex.ld.elemPtrTypes[typeKey(types.Unalias(el.T))] {
			return Val{T: x.Type(), Loc: el, L: []*Term{ex.encodeElemPtr(st, el)}}
		}
		return Val{T: x.Type(), Loc: el}
	case *types.Pointer:
		ex.nilCheck(fr, st, xv, x.Pos(), x.X)
		at := u.Elem().Underlying().(*types.Array)
		ex.oblige(fr, st, "safety", "safety:index["+src+"]", x.Pos(), src,
			And(BVCmp("bvsle", BVI(0, 64), idx), BVCmp("bvslt", idx, BVI(at.Len(), 64))))
		base := ex.locOf(xv)
		nl := *base
		nl.T = at.Elem()
		if base.Mem && base.EIdx == nil {
			nl.EIdx = idx
		} else {
			nl.Idx = append(append([]*Term{}, base.Idx...), idx)
		}
		return Val{T: x.Type(), Loc: &nl}
	}
	panic(unsupported("IndexAddr on " + xv.T.String()))
}

func (ex *Exec) sliceOp(fr *Frame, st *State, x *ssa.Slice) Val {
	xv := ex.val(fr, x.X)
	src := ex.srcAt(x.Pos())
	var lo, hi, mx *Term
	if x.Low != nil {
		lo = ex.toInt64(ex.val(fr, x.Low))
	} else {
		lo = BVI(0, 64)
	}
	if x.High != nil {
		hi = ex.toInt64(ex.val(fr, x.High))
	}
	if x.Max != nil {
		mx = ex.toInt64(ex.val(fr, x.Max))
	}
	switch u := xv.T.Underlying().(type) {
	case *types.Slice:
		if hi == nil {
			hi = sliceLen(xv)
		}
		capv := sliceCap(xv)
		lim := capv
		if mx != nil {
			lim = mx
		}
		g := And(BVCmp("bvsle", BVI(0, 64), lo), BVCmp("bvsle", lo, hi), BVCmp("bvsle", hi, lim))
		if mx != nil {
			g = And(g, BVCmp("bvsle", mx, capv))
		}
		ex.oblige(fr, st, "safety", "safety:slice["+src+"]", x.Pos(), src, g)
		return mkSlice(x.Type(), sliceArr(xv), BVBin("bvadd", sliceOff(xv), lo), BVBin("bvsub", hi, lo), BVBin("bvsub", lim, lo))
	case *types.Basic: // string
		if hi == nil {
			hi = ex.strLen(st, xv.Term())
		}
		ex.oblige(fr, st, "safety", "safety:slice["+src+"]", x.Pos(), src,
			And(BVCmp("bvsle", BVI(0, 64), lo), BVCmp("bvsle", lo, hi), BVCmp("bvsle", hi, ex.strLen(st, xv.Term()))))
		r := App("substr", IntS, xv.Term(), lo, hi)
		ex.assume(st, Eq(App("strlen", BVS(64), r), BVBin("bvsub", hi, lo)))
		return scalar(x.Type(), r)
	case *types.Pointer:
		at := u.Elem().Underlying().(*types.Array)
		ex.nilCheck(fr, st, xv, x.Pos(), x.X)
		n := BVI(at.Len(), 64)
		if hi == nil {
			hi = n
		}
		lim := n
		if mx != nil {
			lim = mx
		}
		ex.oblige(fr, st, "safety", "safety:slice["+src+"]", x.Pos(), src,
			And(BVCmp("bvsle", BVI(0, 64), lo), BVCmp("bvsle", lo, hi), BVCmp("bvsle", hi, lim), BVCmp("bvsle", lim, n)))
		// view the array as slice memory: materialise a backing array holding the array's contents
		base := ex.locOf(xv)
		if base.Mem && base.EIdx == nil {
			return mkSlice(x.Type(), base.Ref, lo, BVBin("bvsub", hi, lo), BVBin("bvsub", lim, lo))
		}
		arrVal := st.load(base)
		id := ex.arrayBacking(st, base, arrVal, at)
		return mkSlice(x.Type(), id, lo, BVBin("bvsub", hi, lo), BVBin("bvsub", lim, lo))
	}
	panic(unsupported("Slice on " + xv.T.String()))
}

// arrayBacking copies a fixed array into a fresh backing array so that it can be sliced.
// Sound only when the array is not accessed directly afterwards; used for local scratch arrays.
func (ex *Exec) arrayBacking(st *State, base *Loc, arrVal Val, at *types.Array) *Term {
	// Only sound when the embedded array is not written through the slice; flagged in the notes.
	id := st.newRef()
	el := layoutOf(at.Elem())
	for j := range el.Leaves {
		_, k, cur := st.memInner(at.Elem(), j, id)
		st.set(k, Store(cur, id, arrVal.L[j]))
	}
	ex.notes = append(ex.notes, "array sliced via copy: "+at.String())
	return id
}

func (ex *Exec) makeSlice(st *State, t types.Type, ln, cp *Term) Val {
	id := st.newRef()
	et := elemType(t)
	el := layoutOf(et)
	for j, lf := range el.Leaves {
		_, k, cur := st.memInner(et, j, id)
		st.set(k, Store(cur, id, ConstArr(ArrS(BVS(64), lf.S), zeroOfSort(lf.S))))
	}
	return mkSlice(t, id, BVI(0, 64), ln, cp)
}

func (ex *Exec) strLen(st *State, s *Term) *Term {
	if s.Op == "intconst" {
		if str, ok := ex.ld.strByID[s.Name]; ok {
			return BVI(int64(len(str)), 64)
		}
	}
	l := App("strlen", BVS(64), s)
	ex.assume(st, And(BVCmp("bvsle", BVI(0, 64), l), BVCmp("bvsle", l, BVI(1<<40, 64))))
	return l
}
