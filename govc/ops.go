package main

// Instruction semantics: arithmetic, conversions, interfaces, maps, channels.

import (
	"fmt"
	"go/constant"
	"go/token"
	"go/types"
	"math"
	"math/big"

	"golang.org/x/tools/go/ssa"
)

func constantBool(c *ssa.Const) bool     { return constant.BoolVal(c.Value) }
func constantString(c *ssa.Const) string { return constant.StringVal(c.Value) }
func constantBig(c *ssa.Const) *big.Int {
	v := constant.ToInt(c.Value)
	if v.Kind() != constant.Int {
		// float constant converted to int
		f, _ := constant.Float64Val(c.Value)
		return big.NewInt(int64(f))
	}
	b, ok := new(big.Int).SetString(v.ExactString(), 10)
	if !ok {
		panic("bad int constant " + v.ExactString())
	}
	return b
}
func float64bits(f float64) uint64 { return math.Float64bits(f) }

func fop(name string, s *Sort, args ...*Term) *Term {
	suffix := "64"
	for _, a := range args {
		if a.S == F32S {
			suffix = "32"
		}
	}
	return App(name+suffix, s, args...)
}

func (ex *Exec) binop(fr *Frame, st *State, op token.Token, x, y Val, rt types.Type, pos token.Pos) Val {
	t := x.T
	// comparisons on non-numeric kinds
	switch op {
	case token.EQL, token.NEQ:
		var e *Term
		switch {
		case isFloatType(t):
			e = fop("feq", BoolS, x.Term(), y.Term())
		case (x.Loc != nil || y.Loc != nil) && len(x.L) == 1 && len(y.L) == 1:
			e = Eq(x.L[0], y.L[0]) // encoded element pointers
		case x.Loc != nil || y.Loc != nil:
			panic(unsupported("comparison of interior pointers"))
		default:
			if len(x.L) != len(y.L) {
				// comparison with nil of a different static type
				if len(y.L) == 1 && y.L[0].Op == "intconst" {
					y = zeroVal(x.T)
				} else if len(x.L) == 1 && x.L[0].Op == "intconst" {
					x = zeroVal(y.T)
				}
			}
			_, xs := x.T.Underlying().(*types.Slice)
			_, ys := y.T.Underlying().(*types.Slice)
			isNilC := func(v Val) bool { return len(v.L) > 0 && v.L[0].Op == "intconst" && v.L[0].Name == "0" }
			switch {
			case (xs || ys) && isNilC(y):
				e = Eq(x.L[0], IntC(0)) // slice == nil
			case (xs || ys) && isNilC(x):
				e = Eq(y.L[0], IntC(0))
			default:
				e = eqVal(x, y) // (specifications may compare slice headers)
			}
		}
		if op == token.NEQ {
			e = Not(e)
		}
		return scalar(rt, e)
	}
	if isFloatType(t) {
		a, b := x.Term(), y.Term()
		switch op {
		case token.ADD:
			return scalar(rt, fop("fadd", a.S, a, b))
		case token.SUB:
			return scalar(rt, fop("fsub", a.S, a, b))
		case token.MUL:
			return scalar(rt, fop("fmul", a.S, a, b))
		case token.QUO:
			return scalar(rt, fop("fdiv", a.S, a, b))
		case token.LSS:
			return scalar(rt, fop("flt", BoolS, a, b))
		case token.LEQ:
			return scalar(rt, fop("fle", BoolS, a, b))
		case token.GTR:
			return scalar(rt, fop("flt", BoolS, b, a))
		case token.GEQ:
			return scalar(rt, fop("fle", BoolS, b, a))
		}
		panic(unsupported("float op " + op.String()))
	}
	if isStringType(t) {
		switch op {
		case token.ADD:
			r := App("strcat", IntS, x.Term(), y.Term())
			ex.assume(st, Eq(App("strlen", BVS(64), r), BVBin("bvadd", ex.strLen(st, x.Term()), ex.strLen(st, y.Term()))))
			return scalar(rt, r)
		case token.LSS, token.LEQ, token.GTR, token.GEQ:
			return scalar(rt, App("strcmp_"+op.String(), BoolS, x.Term(), y.Term()))
		}
	}
	if isBoolType(t) {
		a, b := x.Term(), y.Term()
		switch op {
		case token.AND, token.LAND:
			return scalar(rt, And(a, b))
		case token.OR, token.LOR:
			return scalar(rt, Or(a, b))
		}
	}
	if _, ok := t.Underlying().(*SpecInt); ok {
		return scalar(rt, mathIntOp(op, x.Term(), y.Term()))
	}
	w, signed, ok := isIntType(t)
	if !ok {
		panic(unsupported(fmt.Sprintf("binop %s on %s", op, t)))
	}
	a, b := x.Term(), y.Term()
	src := ""
	if pos.IsValid() {
		src = ex.srcAt(pos)
	}
	switch op {
	case token.ADD:
		return scalar(rt, BVBin("bvadd", a, b))
	case token.SUB:
		return scalar(rt, BVBin("bvsub", a, b))
	case token.MUL:
		return scalar(rt, BVBin("bvmul", a, b))
	case token.QUO, token.REM:
		ex.oblige(fr, st, "safety", "safety:div["+src+"]", pos, src, Not(Eq(b, BVI(0, w))))
		o := "bvudiv"
		if op == token.REM {
			o = "bvurem"
		}
		if signed {
			o = "bvsdiv"
			if op == token.REM {
				o = "bvsrem"
			}
		}
		r := BVBin(o, a, b)
		if o == "bvurem" && b.Op != "bvconst" {
			// valid bit-vector fact (instance of a tautology): for a power-of-two divisor, % is a mask
			p2 := And(Not(Eq(b, BVI(0, w))), Eq(BVBin("bvand", b, BVBin("bvsub", b, BVI(1, w))), BVI(0, w)))
			ex.assume(st, Implies(p2, Eq(r, BVBin("bvand", a, BVBin("bvsub", b, BVI(1, w))))))
		}
		return scalar(rt, r)
	case token.AND:
		return scalar(rt, BVBin("bvand", a, b))
	case token.OR:
		return scalar(rt, BVBin("bvor", a, b))
	case token.XOR:
		return scalar(rt, BVBin("bvxor", a, b))
	case token.AND_NOT:
		return scalar(rt, BVBin("bvand", a, BVNot(b)))
	case token.SHL, token.SHR:
		yw, ysigned, _ := isIntType(y.T)
		if ysigned {
			ex.oblige(fr, st, "safety", "safety:shift["+src+"]", pos, src, BVCmp("bvsge", b, BVI(0, yw)))
		}
		// amount in x's width, saturating
		var amt *Term
		var big_ *Term // amount >= w
		if yw > w {
			big_ = BVCmp("bvuge", b, BVI(int64(w), yw))
			amt = Extract(b, w-1, 0)
		} else {
			amt = ZeroExt(b, w)
			big_ = BVCmp("bvuge", amt, BVI(int64(w), w))
		}
		if op == token.SHL {
			return scalar(rt, Ite(big_, BVI(0, w), BVBin("bvshl", a, amt)))
		}
		if signed {
			return scalar(rt, Ite(big_, BVBin("bvashr", a, BVI(int64(w-1), w)), BVBin("bvashr", a, amt)))
		}
		return scalar(rt, Ite(big_, BVI(0, w), BVBin("bvlshr", a, amt)))
	case token.LSS, token.LEQ, token.GTR, token.GEQ:
		p := "bvu"
		if signed {
			p = "bvs"
		}
		o := map[token.Token]string{token.LSS: "lt", token.LEQ: "le", token.GTR: "gt", token.GEQ: "ge"}[op]
		return scalar(rt, BVCmp(p+o, a, b))
	}
	panic(unsupported("binop " + op.String()))
}

func mathIntOp(op token.Token, a, b *Term) *Term {
	switch op {
	case token.ADD:
		return IntOp("+", a, b)
	case token.SUB:
		return IntOp("-", a, b)
	case token.MUL:
		return IntOp("*", a, b)
	case token.QUO:
		return IntOp("div", a, b)
	case token.REM:
		return IntOp("mod", a, b)
	case token.LSS:
		return IntLt(a, b)
	case token.LEQ:
		return IntLe(a, b)
	case token.GTR:
		return IntLt(b, a)
	case token.GEQ:
		return IntLe(b, a)
	}
	panic(unsupported("mathint op " + op.String()))
}

func (ex *Exec) unop(fr *Frame, st *State, x *ssa.UnOp) Val {
	v := ex.val(fr, x.X)
	switch x.Op {
	case token.MUL:
		ex.nilCheck(fr, st, v, x.Pos(), x.X)
		r := st.load(ex.locOf(v))
		r.T = x.Type()
		ex.refFacts(st, r)
		if g, ok := x.X.(*ssa.Global); ok {
			ex.ld.globalFacts(ex, st, g, r)
		}
		return r
	case token.NOT:
		return scalar(x.Type(), Not(v.Term()))
	case token.SUB:
		if isFloatType(v.T) {
			return scalar(x.Type(), fop("fneg", v.Term().S, v.Term()))
		}
		return scalar(x.Type(), BVNeg(v.Term()))
	case token.XOR:
		return scalar(x.Type(), BVNot(v.Term()))
	case token.ARROW:
		// channel receive: arbitrary value
		et := v.T.Underlying().(*types.Chan).Elem()
		rv := freshVal(et, "recv")
		ex.refFacts(st, rv)
		if x.CommaOk {
			ok := FreshVar("recvok", BoolS)
			return Val{T: x.Type(), L: append(append([]*Term{}, rv.L...), ok)}
		}
		return rv
	}
	panic(unsupported("unop " + x.Op.String()))
}

func (ex *Exec) convert(st *State, v Val, to types.Type) Val {
	from := v.T
	fw, fsigned, fint := isIntType(from)
	tw, tsigned, tint := isIntType(to)
	switch {
	case fint && tint:
		a := v.Term()
		if tw <= fw {
			return scalar(to, Extract(a, tw-1, 0))
		}
		if fsigned {
			return scalar(to, SignExt(a, tw))
		}
		return scalar(to, ZeroExt(a, tw))
	case fint && isFloatType(to):
		n := "u2f"
		if fsigned {
			n = "i2f"
		}
		s := F64S
		if to.Underlying().(*types.Basic).Kind() == types.Float32 {
			s = F32S
		}
		if v.Term().Op == "bvconst" && s == F64S {
			var f float64
			if fsigned {
				f = float64(v.Term().SignedVal().Int64())
			} else {
				f = float64(v.Term().BigVal().Uint64())
			}
			return scalar(to, FConst(math.Float64bits(f), s))
		}
		return scalar(to, App(fmt.Sprintf("%s_%d_%s", n, fw, s.key), s, v.Term()))
	case isFloatType(from) && tint:
		n := "f2u"
		if tsigned {
			n = "f2i"
		}
		return scalar(to, App(fmt.Sprintf("%s_%s_%d", n, v.Term().S.key, tw), BVS(tw), v.Term()))
	case isFloatType(from) && isFloatType(to):
		if layoutOf(from).Leaves[0].S == layoutOf(to).Leaves[0].S {
			return scalar(to, v.Term())
		}
		return scalar(to, App("fcvt_"+layoutOf(to).Leaves[0].S.key, layoutOf(to).Leaves[0].S, v.Term()))
	case isStringType(to):
		// []byte -> string, int -> string: opaque
		r := FreshVar("str", IntS)
		if _, ok := from.Underlying().(*types.Slice); ok {
			ex.assume(st, Eq(App("strlen", BVS(64), r), sliceLen(v)))
		}
		return scalar(to, r)
	case isStringType(from):
		if _, ok := to.Underlying().(*types.Slice); ok {
			id := st.newRef()
			n := ex.strLen(st, v.Term())
			return mkSlice(to, id, BVI(0, 64), n, n)
		}
	}
	if _, ok := to.Underlying().(*types.Pointer); ok {
		r := v
		r.T = to
		return r
	}
	if isNamed(to, "time", "Duration") || isNamed(from, "time", "Duration") {
		r := v
		r.T = to
		return r
	}
	panic(unsupported(fmt.Sprintf("convert %s -> %s", from, to)))
}

// ---- interfaces

func (ex *Exec) makeInterface(st *State, v Val, it types.Type) Val {
	tag := IntC(int64(ex.ld.typeTag(v.T)))
	l := layoutOf(v.T)
	var payload *Term
	if len(l.Leaves) == 1 && (l.Leaves[0].Kind == LRef) && v.Loc == nil {
		payload = v.L[0]
	} else if v.Loc != nil {
		panic(unsupported("interior pointer boxed in interface"))
	} else if len(l.Leaves) == 0 {
		payload = IntC(0)
	} else if len(l.Leaves) == 1 && (l.Leaves[0].Kind == LScalar || l.Leaves[0].Kind == LStr) {
		// scalars are boxed by value: equal values give equal interface values, distinct values distinct ones
		sk := sanitize(l.Leaves[0].S.key)
		payload = App("box_"+sk, IntS, v.L[0])
		ex.assume(st, Eq(App("unbox_"+sk, l.Leaves[0].S, payload), v.L[0]))
	} else {
		ref := st.newRef()
		st.store(&Loc{RootT: v.T, Ref: ref, T: v.T}, v)
		payload = ref
	}
	return Val{T: it, L: []*Term{tag, payload}}
}

func (ex *Exec) unbox(st *State, iv Val, t types.Type) Val {
	l := layoutOf(t)
	if len(l.Leaves) == 1 && l.Leaves[0].Kind == LRef {
		return scalar(t, iv.L[1])
	}
	if len(l.Leaves) == 0 {
		return Val{T: t}
	}
	if len(l.Leaves) == 1 && (l.Leaves[0].Kind == LScalar || l.Leaves[0].Kind == LStr) {
		return scalar(t, App("unbox_"+sanitize(l.Leaves[0].S.key), l.Leaves[0].S, iv.L[1]))
	}
	r := st.load(&Loc{RootT: t, Ref: iv.L[1], T: t})
	ex.refFacts(st, r)
	return r
}

func (ex *Exec) typeAssert(fr *Frame, st *State, x *ssa.TypeAssert) Val {
	iv := ex.val(fr, x.X)
	tag := iv.L[0]
	var ok *Term
	var res Val
	if _, isIface := x.AssertedType.Underlying().(*types.Interface); isIface {
		if tag.Op == "intconst" {
			if tag.Name == "0" {
				ok = False
			} else {
				ct := ex.ld.tagType(tag)
				ok = BoolT(types.Implements(ct, x.AssertedType.Underlying().(*types.Interface)))
			}
		} else {
			ok = And(Not(Eq(tag, IntC(0))), App("implements", BoolS, tag, IntC(int64(ex.ld.typeTag(x.AssertedType)))))
			if it := x.AssertedType.Underlying().(*types.Interface); it.NumMethods() == 0 {
				ok = Not(Eq(tag, IntC(0)))
			}
		}
		res = Val{T: x.AssertedType, L: []*Term{tag, iv.L[1]}}
	} else {
		ok = Eq(tag, IntC(int64(ex.ld.typeTag(x.AssertedType))))
		res = ex.unbox(st, iv, x.AssertedType)
	}
	if x.CommaOk {
		z := zeroVal(x.AssertedType)
		r := iteVal(ok, res, z)
		return Val{T: x.Type(), L: append(append([]*Term{}, r.L...), ok)}
	}
	src := ex.srcAt(x.Pos())
	ex.oblige(fr, st, "safety", "safety:assert-type["+src+"]", x.Pos(), src, ok)
	ex.assume(st, ok)
	return res
}

// ---- maps: (domain, values per leaf, length) per (K,V) type pair, indexed by map ref, then by the key's
// leaves (nested arrays, so struct and interface keys work).

type mapInfo struct {
	dom, ln string
	vals    []string
	ks      []*Sort
	vl      *Layout
	kt      types.Type
}

func mapKeys(t types.Type) *mapInfo {
	mt := t.Underlying().(*types.Map)
	kl := layoutOf(mt.Key())
	if len(kl.Leaves) == 0 {
		panic(unsupported("map with empty key " + t.String()))
	}
	mi := &mapInfo{vl: layoutOf(mt.Elem()), kt: mt.Key()}
	for _, lf := range kl.Leaves {
		mi.ks = append(mi.ks, lf.S)
	}
	base := normKey(mt.Key()) + "=>" + normKey(mt.Elem())
	mi.dom = "D:" + base
	mi.ln = "N:" + base
	for j, lf := range mi.vl.Leaves {
		mi.vals = append(mi.vals, fmt.Sprintf("V:%s#%d%s", base, j, lf.Path))
	}
	return mi
}

// nested array sort: k1 -> k2 -> ... -> elem
func nestSort(ks []*Sort, elem *Sort) *Sort {
	s := elem
	for i := len(ks) - 1; i >= 0; i-- {
		s = ArrS(ks[i], s)
	}
	return s
}

func selectN(a *Term, ks []*Term) *Term {
	for _, k := range ks {
		a = Select(a, k)
	}
	return a
}

func storeN(a *Term, ks []*Term, v *Term) *Term { return storeNested(a, ks, v) }

func constN(ks []*Sort, elem *Term) *Term {
	t := elem
	for i := len(ks) - 1; i >= 0; i-- {
		t = ConstArr(ArrS(ks[i], t.S), t)
	}
	return t
}

func (mi *mapInfo) domSort() *Sort          { return ArrS(IntS, nestSort(mi.ks, BoolS)) }
func (mi *mapInfo) valSort(j int) *Sort     { return ArrS(IntS, nestSort(mi.ks, mi.vl.Leaves[j].S)) }
func (mi *mapInfo) key(k Val) []*Term       { return k.L }

func (ex *Exec) makeMap(st *State, t types.Type) Val {
	ref := st.newRef()
	mi := mapKeys(t)
	st.set(mi.dom, Store(st.get(mi.dom, mi.domSort()), ref, constN(mi.ks, False)))
	st.set(mi.ln, Store(st.get(mi.ln, ArrS(IntS, BVS(64))), ref, BVI(0, 64)))
	for j, k := range mi.vals {
		s := mi.vl.Leaves[j].S
		st.set(k, Store(st.get(k, mi.valSort(j)), ref, constN(mi.ks, zeroOfSort(s))))
	}
	return scalar(t, ref)
}

func (ex *Exec) mapLen(st *State, m Val) *Term {
	mi := mapKeys(m.T)
	return Select(st.get(mi.ln, ArrS(IntS, BVS(64))), m.Term())
}

func (ex *Exec) mapGet(st *State, m Val, key []*Term) (Val, *Term) {
	mi := mapKeys(m.T)
	mt := m.T.Underlying().(*types.Map)
	in := selectN(Select(st.get(mi.dom, mi.domSort()), m.Term()), key)
	v := Val{T: mt.Elem(), L: make([]*Term, len(mi.vals))}
	for j, k := range mi.vals {
		s := mi.vl.Leaves[j].S
		raw := selectN(Select(st.get(k, mi.valSort(j)), m.Term()), key)
		v.L[j] = Ite(in, raw, zeroOfSort(s))
	}
	return v, in
}

func (ex *Exec) lookup(fr *Frame, st *State, x *ssa.Lookup) Val {
	xv := ex.val(fr, x.X)
	if isStringType(xv.T) {
		idx := ex.toInt64(ex.val(fr, x.Index))
		src := ex.srcAt(x.Pos())
		ex.oblige(fr, st, "safety", "safety:index["+src+"]", x.Pos(), src,
			And(BVCmp("bvsle", BVI(0, 64), idx), BVCmp("bvslt", idx, ex.strLen(st, xv.Term()))))
		return scalar(x.Type(), App("strbyte", BVS(8), xv.Term(), idx))
	}
	kv := ex.keyVal(st, ex.val(fr, x.Index), xv.T)
	v, in := ex.mapGet(st, xv, kv.L)
	in = And(in, Not(Eq(xv.Term(), IntC(0))))
	v = iteVal(in, v, zeroVal(v.T))
	ex.refFacts(st, v)
	if x.CommaOk {
		return Val{T: x.Type(), L: append(append([]*Term{}, v.L...), in)}
	}
	return v
}

// keyVal adapts a key value to the map's key type (e.g. a concrete value used as an `any` key was boxed already).
func (ex *Exec) keyVal(st *State, k Val, mt types.Type) Val {
	kt := mt.Underlying().(*types.Map).Key()
	if k.Const != nil {
		return coerce(k, kt)
	}
	if len(k.L) != len(layoutOf(kt).Leaves) {
		panic(unsupported(fmt.Sprintf("map key %s used for key type %s", k.T, kt)))
	}
	return k
}

func (ex *Exec) mapUpdate(fr *Frame, st *State, m, k, v Val, pos token.Pos) {
	if ex.opts.CheckNil {
		ex.oblige(fr, st, "safety", "safety:nilmap["+ex.srcAt(pos)+"]", pos, ex.srcAt(pos), Not(Eq(m.Term(), IntC(0))))
	}
	ex.ownStore(fr, st, Val{}, v, pos)
	mi := mapKeys(m.T)
	k = ex.keyVal(st, k, m.T)
	dArr := st.get(mi.dom, mi.domSort())
	dIn := Select(dArr, m.Term())
	was := selectN(dIn, k.L)
	st.set(mi.dom, Store(dArr, m.Term(), storeN(dIn, k.L, True)))
	lArr := st.get(mi.ln, ArrS(IntS, BVS(64)))
	old := Select(lArr, m.Term())
	st.set(mi.ln, Store(lArr, m.Term(), Ite(was, old, BVBin("bvadd", old, BVI(1, 64)))))
	for j, key := range mi.vals {
		a := st.get(key, mi.valSort(j))
		st.set(key, Store(a, m.Term(), storeN(Select(a, m.Term()), k.L, v.L[j])))
	}
}

func (ex *Exec) mapDelete(st *State, m Val, k []*Term) {
	mi := mapKeys(m.T)
	dArr := st.get(mi.dom, mi.domSort())
	dIn := Select(dArr, m.Term())
	was := selectN(dIn, k)
	st.set(mi.dom, Store(dArr, m.Term(), storeN(dIn, k, False)))
	lArr := st.get(mi.ln, ArrS(IntS, BVS(64)))
	old := Select(lArr, m.Term())
	st.set(mi.ln, Store(lArr, m.Term(), Ite(was, BVBin("bvsub", old, BVI(1, 64)), old)))
}

// mapNext: one step of a map iteration: yields an arbitrary key currently in the domain.
func (ex *Exec) mapNext(fr *Frame, st *State, x *ssa.Next) Val {
	it := ex.val(fr, x.Iter)
	rng := x.Iter.(*ssa.Range)
	mt := rng.X.Type()
	m := scalar(mt, it.L[0])
	mu := mt.Underlying().(*types.Map)
	k := freshVal(mu.Key(), "rangekey")
	ok := FreshVar("rangeok", BoolS)
	v, in := ex.mapGet(st, m, k.L)
	ex.assume(st, Implies(ok, in))
	ex.assume(st, Implies(ok, Not(Eq(m.Term(), IntC(0)))))
	// visited set of this iteration: every key is produced at most once, and the iteration ends only when
	// every key still in the map has been produced (no insertions during the iteration are assumed)
	mi := mapKeys(mt)
	vkey := "R:" + mi.dom
	vArr := st.get(vkey, mi.domSort())
	vIn := Select(vArr, m.Term())
	ex.assume(st, Implies(ok, Not(selectN(vIn, k.L))))
	st.set(vkey, Store(vArr, m.Term(), Ite(ok, storeN(vIn, k.L, True), vIn)))
	{
		var bs, ks []*Term
		for i, srt := range mi.ks {
			b := BoundVar(fmt.Sprintf("vk%d", i), srt)
			bs = append(bs, b)
			ks = append(ks, b)
		}
		domNow := Select(st.get(mi.dom, mi.domSort()), m.Term())
		ex.assume(st, Implies(Not(ok), Forall(bs, Implies(selectN(domNow, ks), selectN(vIn, ks)))))
		// count of produced keys; if the map was not modified since the iteration started, the iteration ends after len(m) keys
		cArr := st.get("RC:"+mi.dom, ArrS(IntS, BVS(64)))
		cnt := Select(cArr, m.Term())
		st.set("RC:"+mi.dom, Store(cArr, m.Term(), Ite(ok, BVBin("bvadd", cnt, BVI(1, 64)), cnt)))
		if Select(st.get("RD:"+mi.dom, mi.domSort()), m.Term()) == domNow {
			ln := Select(st.get(mi.ln, ArrS(IntS, BVS(64))), m.Term())
			ex.assume(st, Implies(Not(ok), Eq(cnt, ln)))
			ex.assume(st, Implies(ok, BVCmp("bvslt", cnt, ln)))
		}
	}
	ex.refFacts(st, v)
	r := Val{T: x.Type(), L: []*Term{ok}}
	tup := x.Type().(*types.Tuple)
	// tuple is (ok, k, v); unused components have invalid type
	valid := func(t types.Type) bool {
		if b, ok := t.(*types.Basic); ok && b.Kind() == types.Invalid {
			return false
		}
		return t != nil
	}
	if valid(tup.At(1).Type()) {
		r.L = append(r.L, k.L...)
	}
	if valid(tup.At(2).Type()) {
		r.L = append(r.L, v.L...)
	}
	return r
}

// ---- goroutines and channels (sequential abstraction)

func (ex *Exec) goStmt(fr *Frame, st *State, x *ssa.Go) {
	c := x.Common()
	rec := &CallRec{Guard: st.PC(), Key: "go " + calleeName(c), Pre: st.clone(), Pos: x.Pos()}
	for _, a := range c.Args {
		rec.Args = append(rec.Args, ex.val(fr, a))
	}
	if cl, ok := c.Value.(*ssa.MakeClosure); ok {
		for _, b := range cl.Bindings {
			rec.Args = append(rec.Args, ex.val(fr, b))
		}
	}
	if !c.IsInvoke() {
		if _, ok := c.Value.(*ssa.Function); !ok {
			if _, ok2 := c.Value.(*ssa.MakeClosure); !ok2 {
				rec.Recv = ex.val(fr, c.Value)
			}
		}
	}
	ex.spawned = append(ex.spawned, rec)
	ex.ownEscape(fr, st, rec.Args, "go", x.Pos())
}

func (ex *Exec) sendStmt(fr *Frame, st *State, x *ssa.Send) {
	v := ex.val(fr, x.X)
	rec := &CallRec{Guard: st.PC(), Key: "send", Args: []Val{v}, Pre: st.clone(), Pos: x.Pos(), Recv: ex.val(fr, x.Chan)}
	ex.sends = append(ex.sends, rec)
	ex.ownEscape(fr, st, []Val{v}, "send", x.Pos())
}

func (ex *Exec) selectStmt(fr *Frame, st *State, x *ssa.Select) Val {
	tup := x.Type().(*types.Tuple)
	n := len(x.States)
	idx := FreshVar("selidx", BVS(64))
	lo := int64(0)
	if !x.Blocking {
		lo = -1
	}
	ex.assume(st, And(BVCmp("bvsle", BVI(lo, 64), idx), BVCmp("bvslt", idx, BVI(int64(n), 64))))
	r := Val{T: tup, L: []*Term{idx, FreshVar("selok", BoolS)}}
	for i := 2; i < tup.Len(); i++ {
		fv := freshVal(tup.At(i).Type(), "selrecv")
		ex.refFacts(st, fv)
		r.L = append(r.L, fv.L...)
	}
	// a receive from a closed channel is always ready
	cl := st.get("C:closed", ArrS(IntS, BoolS))
	for i, s := range x.States {
		if s.Dir == types.RecvOnly {
			ch := ex.val(fr, s.Chan).Term()
			if !x.Blocking {
				ex.assume(st, Implies(Select(cl, ch), Not(Eq(idx, BVI(-1, 64)))))
			}
			if n == 1 {
				ex.assume(st, Implies(Select(cl, ch), Eq(idx, BVI(int64(i), 64))))
			}
		}
	}
	for _, s := range x.States {
		if s.Dir == types.SendOnly {
			v := ex.val(fr, s.Send)
			rec := &CallRec{Guard: st.PC(), Key: "send", Args: []Val{v}, Pre: st.clone(), Pos: s.Pos, Recv: ex.val(fr, s.Chan)}
			ex.sends = append(ex.sends, rec)
			ex.ownEscape(fr, st, []Val{v}, "send", s.Pos)
		}
	}
	return r
}

func calleeName(c *ssa.CallCommon) string {
	if c.IsInvoke() {
		return c.Value.Name() + "." + c.Method.Name()
	}
	if f := c.StaticCallee(); f != nil {
		return fnKey(f)
	}
	return sourceName(c.Value)
}
