package main

// Counterexample replay: solver model -> in-package Go test (go test -overlay) run against the real code.

import (
	"bytes"
	"context"
	"encoding/json"
	"fmt"
	"go/types"
	"math/big"
	"os"
	"os/exec"
	"path/filepath"
	"sort"
	"strings"
	"time"

	"golang.org/x/tools/go/ssa"
)

type replayBuilder struct {
	ex      *Exec
	st      *State // entry state
	pkg     *types.Package
	cache   map[*Term]*big.Int
	need    map[*Term]bool
	stmts   []string
	refVar  map[string]string // "T|ref" -> variable
	arrVar  map[string]string
	arrSize map[string]int64
	imports map[string]bool
	nvar    int
	fail    string
	approx  []string
}

func (b *replayBuilder) val(t *Term) (*big.Int, bool) {
	if t.IsConst() {
		if t.Op == "true" {
			return big.NewInt(1), true
		}
		if t.Op == "false" {
			return big.NewInt(0), true
		}
		return t.BigVal(), true
	}
	if v, ok := b.cache[t]; ok {
		return v, true
	}
	b.need[t] = true
	return big.NewInt(0), false
}

func (b *replayBuilder) typeStr(t types.Type) string {
	return types.TypeString(t, func(p *types.Package) string {
		if p == b.pkg {
			return ""
		}
		b.imports[p.Path()] = true
		return p.Name()
	})
}

func (b *replayBuilder) fresh(prefix string) string {
	b.nvar++
	return fmt.Sprintf("%s%d", prefix, b.nvar)
}

func signedOf(v *big.Int, w int) *big.Int {
	if v.Bit(w-1) == 1 {
		return new(big.Int).Sub(v, new(big.Int).Lsh(big.NewInt(1), uint(w)))
	}
	return v
}

// expr builds a Go expression for value v (of the entry state).
func (b *replayBuilder) expr(v Val, depth int) string {
	if depth > 6 {
		b.fail = "input too deep"
		return "nil"
	}
	t := v.T
	ts := b.typeStr(t)
	if isNamed(t, "time", "Time") {
		ns, _ := b.val(v.L[0])
		b.imports["time"] = true
		s := signedOf(ns, 64)
		if s.Cmp(new(big.Int).Neg(new(big.Int).Lsh(big.NewInt(1), 63))) == 0 {
			return "time.Time{}"
		}
		return fmt.Sprintf("time.Unix(0, %s)", s)
	}
	if isNamed(t, "sync", "Mutex") || isNamed(t, "sync", "RWMutex") || isNamed(t, "sync", "WaitGroup") || isNamed(t, "sync", "Once") || isNamed(t, "sync", "Pool") || isNamed(t, "sync", "Map") {
		return ts + "{}"
	}
	switch u := t.Underlying().(type) {
	case *types.Basic:
		switch {
		case u.Info()&types.IsBoolean != 0:
			x, _ := b.val(v.L[0])
			return fmt.Sprintf("%s(%v)", ts, x.Sign() != 0)
		case u.Info()&types.IsInteger != 0:
			x, _ := b.val(v.L[0])
			w, signed, _ := isIntType(t)
			if signed {
				x = signedOf(x, w)
			}
			return fmt.Sprintf("%s(%s)", ts, x)
		case u.Info()&types.IsString != 0:
			x, _ := b.val(v.L[0])
			if s, ok := b.ex.ld.strByID[x.String()]; ok {
				return fmt.Sprintf("%s(%q)", ts, s)
			}
			b.approx = append(b.approx, "string value chosen arbitrarily")
			return ts + `("")`
		case u.Info()&types.IsFloat != 0:
			b.approx = append(b.approx, "floating-point input set to 1 (floats are uninterpreted in the model)")
			return ts + "(1)"
		}
	case *types.Pointer:
		ref, ok := b.val(v.L[0])
		if !ok {
			return "nil"
		}
		if ref.Sign() == 0 {
			return "nil"
		}
		key := typeKey(u.Elem()) + "|" + ref.String()
		if name, ok := b.refVar[key]; ok {
			return name
		}
		name := b.fresh("p")
		b.refVar[key] = name
		loc := b.ex.locOf(Val{T: t, L: []*Term{IntC(ref.Int64())}})
		// use the symbolic ref for loads so that the model is consulted on the right terms
		loc.Ref = v.L[0]
		pv := b.st.load(loc)
		b.stmts = append(b.stmts, fmt.Sprintf("%s := new(%s)", name, b.typeStr(u.Elem())))
		b.assign("(*"+name+")", pv, depth+1)
		return name
	case *types.Slice:
		arr, ok := b.val(v.L[0])
		off, ok2 := b.val(v.L[1])
		ln, ok3 := b.val(v.L[2])
		cp, ok4 := b.val(v.L[3])
		if !(ok && ok2 && ok3 && ok4) {
			return "nil"
		}
		if arr.Sign() == 0 && ln.Sign() == 0 {
			return "nil"
		}
		off, ln, cp = signedOf(off, 64), signedOf(ln, 64), signedOf(cp, 64)
		if ln.Sign() < 0 || cp.Cmp(ln) < 0 || off.Sign() < 0 || cp.Int64() > 1<<20 || off.Int64() > 1<<20 {
			b.fail = fmt.Sprintf("slice header off=%s len=%s cap=%s not constructible", off, ln, cp)
			return "nil"
		}
		key := typeKey(u.Elem()) + "|" + arr.String()
		name, seen := b.arrVar[key]
		total := off.Int64() + cp.Int64()
		if !seen {
			name = b.fresh("arr")
			b.arrVar[key] = name
			b.arrSize[key] = total
			b.stmts = append(b.stmts, fmt.Sprintf("%s := make([]%s, %d)", name, b.typeStr(u.Elem()), total))
		} else if b.arrSize[key] < total {
			b.fail = "aliased slices with different extents"
			return "nil"
		}
		n := ln.Int64()
		if n > 4096 {
			b.approx = append(b.approx, "only the first 4096 elements of a slice are set")
			n = 4096
		}
		for i := int64(0); i < n; i++ {
			ev := b.st.load(sliceElemLoc(v, BVI(i, 64)))
			b.assign(fmt.Sprintf("%s[%d]", name, off.Int64()+i), ev, depth+1)
		}
		return fmt.Sprintf("%s[%d:%d:%d]", name, off.Int64(), off.Int64()+ln.Int64(), off.Int64()+cp.Int64())
	case *types.Struct:
		name := b.fresh("s")
		b.stmts = append(b.stmts, fmt.Sprintf("var %s %s", name, ts))
		b.assign(name, v, depth+1)
		return name
	case *types.Array:
		name := b.fresh("a")
		b.stmts = append(b.stmts, fmt.Sprintf("var %s %s", name, ts))
		b.assign(name, v, depth+1)
		return name
	case *types.Map:
		ref, _ := b.val(v.L[0])
		if ref.Sign() == 0 {
			return "nil"
		}
		b.approx = append(b.approx, "map input constructed empty")
		return ts + "{}"
	case *types.Interface:
		tag, _ := b.val(v.L[0])
		if tag.Sign() == 0 {
			return "nil"
		}
		if types.Identical(t, types.Universe.Lookup("error").Type()) {
			b.imports["errors"] = true
			return `errors.New("replay")`
		}
		b.fail = "non-nil interface input"
		return "nil"
	case *types.Chan, *types.Signature:
		ref, _ := b.val(v.L[0])
		if ref.Sign() == 0 {
			return "nil"
		}
		b.fail = "function/channel input"
		return "nil"
	}
	b.fail = "input of type " + ts
	return "nil"
}

// assign emits statements setting lvalue to v.
func (b *replayBuilder) assign(lv string, v Val, depth int) {
	switch u := v.T.Underlying().(type) {
	case *types.Struct:
		if isNamed(v.T, "time", "Time") || strings.HasPrefix(typeKey(v.T), "sync.") {
			if isNamed(v.T, "time", "Time") {
				b.stmts = append(b.stmts, fmt.Sprintf("%s = %s", lv, b.expr(v, depth)))
			}
			return
		}
		lo := layoutOf(v.T)
		for i := 0; i < u.NumFields(); i++ {
			f := u.Field(i)
			if f.Pkg() != nil && f.Pkg() != b.pkg && !f.Exported() {
				continue
			}
			if strings.HasPrefix(typeKey(f.Type()), "sync.") {
				continue
			}
			fi := lo.Fields[i]
			b.assign(lv+"."+f.Name(), Val{T: fi.T, L: v.L[fi.Off : fi.Off+fi.N]}, depth)
		}
	case *types.Array:
		if u.Len() > 512 {
			b.approx = append(b.approx, "large array left zero")
			return
		}
		for i := int64(0); i < u.Len(); i++ {
			b.assign(fmt.Sprintf("%s[%d]", lv, i), arrayIndex(v, BVI(i, 64)), depth)
		}
	default:
		e := b.expr(v, depth)
		b.stmts = append(b.stmts, fmt.Sprintf("%s = %s", lv, e))
	}
}

type observable struct {
	goExpr string
	term   *Term
	signed bool
	w      int
	isBool bool
}

// observe lists printable scalar observables of value v reachable through goExpr.
func (b *replayBuilder) observe(goExpr string, v Val, st *State, out *[]observable, depth int) {
	if depth > 3 || v.Loc != nil {
		return
	}
	switch u := v.T.Underlying().(type) {
	case *types.Basic:
		switch {
		case u.Info()&types.IsBoolean != 0:
			*out = append(*out, observable{goExpr: goExpr, term: v.L[0], isBool: true})
		case u.Info()&types.IsInteger != 0:
			w, s, _ := isIntType(v.T)
			*out = append(*out, observable{goExpr: goExpr, term: v.L[0], signed: s, w: w})
		}
	case *types.Pointer:
		if _, ok := u.Elem().Underlying().(*types.Struct); !ok {
			return
		}
		ref, ok := b.val(v.L[0])
		if !ok || ref.Sign() == 0 {
			*out = append(*out, observable{goExpr: "(" + goExpr + " != nil)", term: Not(Eq(v.L[0], IntC(0))), isBool: true})
			return
		}
		b.observe("(*"+goExpr+")", st.load(b.ex.locOf(v)), st, out, depth+1)
	case *types.Struct:
		if isNamed(v.T, "time", "Time") || strings.HasPrefix(typeKey(v.T), "sync.") {
			return
		}
		lo := layoutOf(v.T)
		for i := 0; i < u.NumFields(); i++ {
			f := u.Field(i)
			if f.Pkg() != nil && f.Pkg() != b.pkg && !f.Exported() {
				continue
			}
			fi := lo.Fields[i]
			b.observe(goExpr+"."+f.Name(), Val{T: fi.T, L: v.L[fi.Off : fi.Off+fi.N]}, st, out, depth+1)
		}
	case *types.Slice:
		*out = append(*out, observable{goExpr: "len(" + goExpr + ")", term: sliceLen(v), signed: true, w: 64})
		ln, ok := b.val(sliceLen(v))
		if !ok {
			return
		}
		n := signedOf(ln, 64).Int64()
		if n > 64 {
			n = 64
		}
		if _, ok := u.Elem().Underlying().(*types.Basic); !ok {
			return
		}
		for i := int64(0); i < n; i++ {
			b.observe(fmt.Sprintf("%s[%d]", goExpr, i), st.load(sliceElemLoc(v, BVI(i, 64))), st, out, depth+1)
		}
	}
}

func tryReplay(ld *Loaded, o *Obligation, rep map[string]interface{}, dir string) bool {
	ok, reason := doReplay(ld, o, rep, dir)
	if !ok {
		rep["replay"] = "not reproduced: " + reason
	}
	return ok
}

func doReplay(ld *Loaded, o *Obligation, rep map[string]interface{}, dir string) (reproduced bool, reason string) {
	defer func() {
		if r := recover(); r != nil {
			reproduced, reason = false, fmt.Sprint("replay builder: ", r)
		}
	}()
	ex := o.ex
	if ex == nil || ex.top == nil {
		return false, "no function context (lemma)"
	}
	fn := ex.top
	if len(fn.FreeVars) > 0 {
		return false, "closure with captured variables: inputs not constructible from the model"
	}
	if fn.Pkg == nil {
		return false, "no package"
	}
	if o.Kind == "loop" {
		return false, "loop-invariant obligation: the counterexample is an intermediate loop state, not a function input"
	}
	q := &Query{Hyps: o.Hyps, Goal: o.Goal}
	b := &replayBuilder{ex: ex, st: ex.entry, pkg: fn.Pkg.Pkg, cache: map[*Term]*big.Int{}, need: map[*Term]bool{},
		refVar: map[string]string{}, arrVar: map[string]string{}, arrSize: map[string]int64{}, imports: map[string]bool{"fmt": true, "testing": true}}
	var argExprs []string
	var obs []observable
	final := o.st
	build := func() {
		b.stmts, b.refVar, b.arrVar, b.arrSize, b.nvar, b.fail, b.approx = nil, map[string]string{}, map[string]string{}, map[string]int64{}, 0, "", nil
		argExprs = nil
		obs = nil
		for _, p := range fn.Params {
			name := b.fresh("in")
			e := b.expr(ex.params[p.Name()], 0)
			b.stmts = append(b.stmts, fmt.Sprintf("var %s %s = %s", name, b.typeStr(p.Type()), e))
			argExprs = append(argExprs, name)
		}
		if o.Kind == "post" || o.Kind == "frame" {
			for i, r := range o.results {
				b.observe(fmt.Sprintf("r%d", i), r, final, &obs, 0)
			}
			for i, p := range fn.Params {
				if _, isPtr := p.Type().Underlying().(*types.Pointer); isPtr {
					b.observe(argExprs[i], ex.params[p.Name()], final, &obs, 0)
				}
			}
			for _, ob := range obs {
				b.val(ob.term)
			}
		}
	}
	for round := 0; round < 8; round++ {
		b.need = map[*Term]bool{}
		build()
		if len(b.need) == 0 {
			break
		}
		var ts []*Term
		for t := range b.need {
			ts = append(ts, t)
		}
		sort.Slice(ts, func(i, j int) bool { return ts[i].id < ts[j].id })
		got := GetValues(q, dir, o.Name+fmt.Sprintf(".r%d", round), ts, o.Res.Solver, 20)
		if len(got) == 0 {
			return false, "solver returned no model values"
		}
		for t, v := range got {
			b.cache[t] = v
		}
		for _, t := range ts {
			if _, ok := b.cache[t]; !ok {
				b.cache[t] = big.NewInt(0)
			}
		}
	}
	if b.fail != "" {
		return false, b.fail
	}
	// call expression
	var call string
	nres := fn.Signature.Results().Len()
	lhs := ""
	if nres > 0 {
		var rs []string
		for i := 0; i < nres; i++ {
			rs = append(rs, fmt.Sprintf("r%d", i))
		}
		lhs = strings.Join(rs, ", ") + " := "
	}
	if fn.Signature.Recv() != nil {
		call = fmt.Sprintf("%s%s.%s(%s)", lhs, argExprs[0], fn.Name(), strings.Join(argExprs[1:], ", "))
	} else {
		call = fmt.Sprintf("%s%s(%s)", lhs, fn.Name(), strings.Join(argExprs, ", "))
	}
	var sb strings.Builder
	fmt.Fprintf(&sb, "package %s\n\nimport (\n", fn.Pkg.Pkg.Name())
	var imps []string
	for p := range b.imports {
		imps = append(imps, p)
	}
	sort.Strings(imps)
	for _, p := range imps {
		fmt.Fprintf(&sb, "\t%q\n", p)
	}
	sb.WriteString(")\n\n")
	fmt.Fprintf(&sb, "// Replay of obligation %s\n// clause: %s\nfunc TestGovcReplay(t *testing.T) {\n", o.Name, o.Src)
	for _, s := range b.stmts {
		sb.WriteString("\t" + s + "\n")
	}
	sb.WriteString("\tdefer func() {\n\t\tif r := recover(); r != nil {\n\t\t\tfmt.Println(\"GOVC-PANIC:\", r)\n\t\t}\n\t}()\n")
	sb.WriteString("\t" + call + "\n")
	for i := 0; i < nres; i++ {
		fmt.Fprintf(&sb, "\t_ = r%d\n", i)
	}
	for i, ob := range obs {
		fmt.Fprintf(&sb, "\tfmt.Println(\"GOVC-OBS\", %d, %s)\n", i, ob.goExpr)
	}
	sb.WriteString("\tfmt.Println(\"GOVC-DONE\")\n}\n")
	base := sanitize(o.Name)
	if len(base) > 150 {
		base = base[:150]
	}
	testFile := filepath.Join(dir, base+"_test.go")
	os.MkdirAll(dir, 0o755)
	os.WriteFile(testFile, []byte(sb.String()), 0o644)
	pkgDir := filepath.Dir(ld.fset.Position(fn.Pos()).Filename)
	ov := map[string]map[string]string{"Replace": {filepath.Join(pkgDir, "zz_govc_replay_test.go"): testFile}}
	ovFile := filepath.Join(dir, base+".overlay.json")
	ob, _ := json.Marshal(ov)
	os.WriteFile(ovFile, ob, 0o644)
	rel, _ := filepath.Rel(repoRoot, pkgDir)
	ctx, cc := context.WithTimeout(context.Background(), 150*time.Second)
	defer cc()
	cmd := exec.CommandContext(ctx, "go", "test", "-overlay", ovFile, "-vet=off", "-count=1", "-timeout", "60s", "-run", "^TestGovcReplay$", "-v", "./"+rel)
	cmd.Dir = repoRoot
	cmd.Env = append(os.Environ(), "GOFLAGS=-mod=mod", "GOPROXY=off")
	var out bytes.Buffer
	cmd.Stdout, cmd.Stderr = &out, &out
	cmd.Run()
	output := out.String()
	rep["replay_test"] = testFile
	rep["replay_cmd"] = strings.Join(cmd.Args, " ") + "   (cwd " + repoRoot + ")"
	rep["replay_output"] = truncate(output, 3000)
	if len(b.approx) > 0 {
		rep["replay_approximations"] = b.approx
	}
	inputs := map[string]string{}
	for i, p := range fn.Params {
		inputs[p.Name()] = argExprs[i]
	}
	rep["replay_inputs"] = b.stmts
	panicked := strings.Contains(output, "GOVC-PANIC:") || strings.Contains(output, "panic:")
	if o.Kind == "safety" {
		if panicked {
			rep["replay"] = "reproduced: the real function panics on the solver's input"
			return true, ""
		}
		return false, "the real function did not panic on the solver's input"
	}
	if !strings.Contains(output, "GOVC-DONE") {
		return false, "replay test did not complete"
	}
	// compare observables with the model's prediction of the violating post-state
	mism := 0
	compared := 0
	for i, obv := range obs {
		want, ok := b.cache[obv.term]
		if !ok {
			if obv.term.IsConst() {
				want, _ = b.val(obv.term)
			} else {
				continue
			}
		}
		marker := fmt.Sprintf("GOVC-OBS %d ", i)
		k := strings.Index(output, marker)
		if k < 0 {
			continue
		}
		line := output[k+len(marker):]
		if j := strings.IndexByte(line, '\n'); j >= 0 {
			line = line[:j]
		}
		line = strings.TrimSpace(line)
		var wantS string
		if obv.isBool {
			wantS = fmt.Sprint(want.Sign() != 0)
		} else if obv.signed {
			wantS = signedOf(want, obv.w).String()
		} else {
			wantS = want.String()
		}
		compared++
		if line != wantS {
			mism++
			rep[fmt.Sprintf("replay_mismatch_%d", i)] = fmt.Sprintf("%s: real=%s model=%s", obv.goExpr, line, wantS)
		}
	}
	if compared == 0 {
		return false, "no comparable observables"
	}
	if mism > 0 {
		return false, fmt.Sprintf("%d of %d observables differ between the real run and the model", mism, compared)
	}
	rep["replay"] = fmt.Sprintf("reproduced: the real function, run on the solver's input, ends in exactly the post-state (%d observables) for which the clause is false", compared)
	return true, ""
}

func cmdReplay(args []string) int {
	if len(args) < 1 {
		fmt.Fprintln(os.Stderr, "usage: govc replay <replay.json>")
		return 2
	}
	b, err := os.ReadFile(args[0])
	if err != nil {
		fmt.Fprintln(os.Stderr, err)
		return 2
	}
	var rep map[string]interface{}
	json.Unmarshal(b, &rep)
	fmt.Printf("obligation: %v\nclause: %v\nsolver: %v %v\n", rep["obligation"], rep["clause"], rep["solver"], rep["solver_status"])
	tf, _ := rep["replay_test"].(string)
	if tf == "" {
		fmt.Println("no replay test recorded:", rep["replay"], rep["reason"])
		return 1
	}
	ovFile := strings.TrimSuffix(tf, "_test.go") + ".overlay.json"
	cmdline, _ := rep["replay_cmd"].(string)
	fmt.Println("running:", cmdline)
	fs := strings.Fields(strings.Split(cmdline, "   (cwd")[0])
	_ = ovFile
	cmd := exec.Command(fs[0], fs[1:]...)
	cmd.Dir = repoRoot
	cmd.Env = append(os.Environ(), "GOFLAGS=-mod=mod", "GOPROXY=off")
	cmd.Stdout, cmd.Stderr = os.Stdout, os.Stderr
	cmd.Run()
	return 1
}

var _ = ssa.Function{}
