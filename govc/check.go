package main

// govc check <property>: regenerate and discharge every claimed obligation, write evidence, report violations.

import (
	"sync"
	"os/exec"
	"context"
	"encoding/json"
	"flag"
	"fmt"
	"os"
	"path/filepath"
	"sort"
	"strconv"
	"strings"
	"time"
)

type PropConfig struct {
	ID          string   `json:"id"`
	Packages    []string `json:"packages"`
	Functions   []string `json:"functions"`
	Lemmas      []string `json:"lemmas"`
	Level       string   `json:"level"`
	Assumptions []string `json:"assumptions"`
	NotCovered  []string `json:"not_covered"`
	Bounded     []BoundedCheck `json:"bounded"`
	Explanation string   `json:"explanation"`
}

// BoundedCheck: a bounded stand-in for an assumed contract: a Go test injected into the package with `go test -overlay`
// that enumerates every case up to the stated bound on the real code. Reported as "bounded", never as proved.
type BoundedCheck struct {
	Name     string `json:"name"`
	Pkg      string `json:"pkg"`      // package directory relative to the repository root
	File     string `json:"file"`     // test file relative to /verif
	Run      string `json:"run"`      // test name
	Bound    string `json:"bound"`    // the bound, in words
	StandsIn string `json:"stands_in_for"`
}

type Finding struct {
	Kind       string `json:"kind"` // finding | fixed
	Property   string `json:"property"`
	Obligation string `json:"obligation"`
	Case       string `json:"case"`
	What       string `json:"what"`
	Witness    string `json:"witness"`
	Commit     string `json:"commit,omitempty"`
}

func loadFindings() []Finding {
	var fs []Finding
	b, err := os.ReadFile(filepath.Join(verifRoot, "known_findings.json"))
	if err != nil {
		return nil
	}
	if err := json.Unmarshal(b, &fs); err != nil {
		fmt.Fprintln(os.Stderr, "known_findings.json:", err)
	}
	return fs
}

func cmdCheck(args []string) int {
	fs := flag.NewFlagSet("check", flag.ExitOnError)
	tier := fs.String("tier", "quick", "quick|thorough")
	verbose := fs.Bool("v", false, "verbose")
	keep := fs.Bool("keep", false, "keep smt files")
	noEvidence := fs.Bool("no-evidence", false, "do not write the evidence file (used by selftests)")
	recHints := fs.Bool("record-hints", false, "after the check, record proof hints (hypothesis cores) for the slow obligations in proofhints.json")
	var id string
	rest := args
	if len(rest) > 0 && !strings.HasPrefix(rest[0], "-") {
		id = rest[0]
		rest = rest[1:]
	}
	fs.Parse(rest)
	if id == "" && fs.NArg() > 0 {
		id = fs.Arg(0)
	}
	if v := os.Getenv("VERIF_TIER"); v == "quick" || v == "thorough" {
		*tier = v
	}
	seed := 0
	if v := os.Getenv("VERIF_SEED"); v != "" {
		seed, _ = strconv.Atoi(v)
	}
	t0 := time.Now()
	var pc PropConfig
	b, err := os.ReadFile(filepath.Join(verifRoot, "props", id+".json"))
	if err != nil {
		fmt.Fprintln(os.Stderr, err)
		return 2
	}
	if err := json.Unmarshal(b, &pc); err != nil {
		fmt.Fprintln(os.Stderr, err)
		return 2
	}
	timeout := 60
	if *tier == "thorough" {
		timeout = 300
	}
	workDir := filepath.Join(verifRoot, "work", id)
	os.RemoveAll(workDir)
	replayDir := filepath.Join(verifRoot, "replays", id)
	os.RemoveAll(replayDir)

	var genFails []genFail
	var all []*Obligation
	var results []*FuncResult
	ld, err := loadRepo(repoRoot, pc.Packages)
	if err != nil {
		genFails = append(genFails, genFail{id + "#load", err.Error()})
	} else {
		for _, key := range pc.Functions {
			fn := ld.funcIndex[key]
			if fn == nil {
				genFails = append(genFails, genFail{key + "#generate", "function under contract not found in the current tree"})
				continue
			}
			if ld.contractFor(fn) == nil {
				genFails = append(genFails, genFail{key + "#generate", "no contract found for function (contract file missing or key changed)"})
				continue
			}
			res := ld.verifyFunc(fn)
			results = append(results, res)
			if res.Unsupported != "" {
				genFails = append(genFails, genFail{key + "#generate", "UNSUPPORTED: " + res.Unsupported})
				continue
			}
			if len(res.Obs) == 0 {
				genFails = append(genFails, genFail{key + "#generate", "no obligations generated (vacuous)"})
			}
		}
		for _, ln := range pc.Lemmas {
			l := ld.findLemma(ln)
			if l == nil {
				genFails = append(genFails, genFail{"lemma:" + ln + "#generate", "lemma not found"})
				continue
			}
			res := ld.verifyLemma(l)
			results = append(results, res)
			if res.Unsupported != "" {
				genFails = append(genFails, genFail{"lemma:" + ln + "#generate", "UNSUPPORTED: " + res.Unsupported})
			}
		}
	}
	// known findings: split the named obligations
	findings := loadFindings()
	type canary struct {
		f Finding
		o *Obligation
	}
	var canaries []canary
	for _, res := range results {
		var extra []*Obligation
		for _, o := range res.Obs {
			for _, f := range findings {
				if f.Kind != "finding" || f.Property != id || f.Obligation != o.Name || o.Cover {
					continue
				}
				caseT := True
				if f.Case != "" && res.ex != nil {
					ct, err := res.ex.evalCase(res, f.Case)
					if err != nil {
						genFails = append(genFails, genFail{o.Name + "#known-finding-case", err.Error()})
						continue
					}
					caseT = ct
				}
				c := &Obligation{Name: o.Name + "@known", Kind: "canary", Fn: o.Fn, Cover: true, Src: f.What,
					Hyps: append(append([]*Term{}, o.Hyps...), caseT, Not(o.Goal)), ex: o.ex, st: o.st}
				extra = append(extra, c)
				canaries = append(canaries, canary{f, c})
				o.Hyps = append(append([]*Term{}, o.Hyps...), Not(caseT))
			}
		}
		res.Obs = append(res.Obs, extra...)
		all = append(all, res.Obs...)
	}
	solveAll(all, workDir, timeout, *keep)
	// undecided obligations (no model) are given one more attempt on an otherwise idle machine with twice the time:
	// a solver timeout under load must not be reported as a violation
	var again []*Obligation
	definite := false
	for _, o := range all {
		if !o.Cover && o.failed() {
			if o.Res.Status == "sat" {
				definite = true
			} else {
				again = append(again, o)
			}
		}
	}
	if len(again) > 0 && len(again) <= 8 && !definite {
		fmt.Fprintf(os.Stderr, "retrying %d undecided obligation(s) with timeout %ds\n", len(again), timeout*3/2)
		solveAll(again, workDir, timeout*3/2, *keep)
	}

	if *recHints {
		var wg sync.WaitGroup
		sem := make(chan struct{}, 4)
		n := 0
		for _, o := range all {
			if o.Cover || !o.ok() || o.Wall < 2.5 || strings.Contains(o.Res.Solver, "+hints") {
				continue
			}
			n++
			wg.Add(1)
			go func(o *Obligation) {
				defer wg.Done()
				sem <- struct{}{}
				defer func() { <-sem }()
				recordHintFor(o, workDir)
			}(o)
		}
		wg.Wait()
		saveHints()
		fmt.Fprintf(os.Stderr, "proof hints: %d slow obligations examined, %d hints recorded\n", n, len(newHints))
	}

	// ---- report
	violations := 0
	exit := 0
	var samples []map[string]interface{}
	perSolver := map[string]int{}
	solverSecs := map[string]float64{}
	nObl, nDis, nCover, nCanary, nCoverSat := 0, 0, 0, 0, 0
	isCanary := map[*Obligation]bool{}
	for _, c := range canaries {
		isCanary[c.o] = true
	}
	for _, o := range all {
		if isCanary[o] {
			nCanary++
			continue
		}
		if o.Cover {
			nCover++
			if o.ok() {
				nCoverSat++
			}
			continue
		}
		nObl++
		if o.ok() {
			nDis++
			perSolver[o.Res.Solver]++
			solverSecs[o.Res.Solver] += o.Res.Secs
		}
		if *verbose {
			fmt.Printf("  %-8s %-9s %5.2fs %s\n", o.Res.Status, o.Res.Solver, o.Res.Secs, o.Name)
		}
		if len(samples) < 12 || !o.ok() {
			samples = append(samples, map[string]interface{}{"obligation": o.Name, "kind": o.Kind, "clause": o.Src,
				"status": o.Res.Status, "solver": o.Res.Solver, "secs": round3(o.Res.Secs), "pos": posStr(o)})
		}
	}
	printed := map[string]bool{}
	for _, c := range canaries {
		if c.o.Res.Status == "sat" && !printed[c.f.What] {
			printed[c.f.What] = true
			fmt.Printf("KNOWN-FINDING: property=%s %s [%s]\n", id, c.f.What, c.f.Obligation)
		}
	}
	os.MkdirAll(replayDir, 0o755)
	for _, g := range genFails {
		violations++
		p := filepath.Join(replayDir, sanitize(g.name)+".json")
		writeJSON(p, map[string]interface{}{"property": id, "obligation": g.name, "reason": g.reason,
			"note": "the obligations of this function could not be generated from the current tree, so the property is not shown to hold"})
		fmt.Printf("VIOLATION property=%s replay=%s obligation=%s no-failing-input-found\n", id, p, g.name)
	}
	for _, o := range all {
		if isCanary[o] || !o.failed() {
			continue
		}
		violations++
		p := filepath.Join(replayDir, sanitize(o.Name)+".json")
		rep := map[string]interface{}{"property": id, "obligation": o.Name, "kind": o.Kind, "clause": o.Src, "pos": posStr(o),
			"solver_status": o.Res.Status, "solver": o.Res.Solver, "per_solver": o.Res.PerSolver, "solver_output": truncate(o.Res.Output, 4000), "smt2": o.File}
		reproduced := false
		if o.Cover {
			rep["note"] = "vacuity guard: this precondition / path must be satisfiable and is not"
		} else if o.Res.Status == "sat" {
			reproduced = tryReplay(ld, o, rep, replayDir)
		}
		writeJSON(p, rep)
		if reproduced {
			fmt.Printf("VIOLATION property=%s replay=%s obligation=%s\n", id, p, o.Name)
		} else {
			fmt.Printf("VIOLATION property=%s replay=%s obligation=%s no-failing-input-found\n", id, p, o.Name)
		}
	}
	// ---- bounded stand-ins (labelled bounded; a failure is a failing input on the real code)
	var boundedRes []map[string]interface{}
	for _, bc := range pc.Bounded {
		ovDir := filepath.Join(verifRoot, "work", id)
		os.MkdirAll(ovDir, 0o755)
		ov := filepath.Join(ovDir, "bounded_"+sanitize(bc.Name)+".overlay.json")
		target := filepath.Join(repoRoot, bc.Pkg, "zz_govc_bounded_test.go")
		writeJSON(ov, map[string]interface{}{"Replace": map[string]string{target: filepath.Join(verifRoot, bc.File)}})
		ctx, cancel := context.WithTimeout(context.Background(), 10*time.Minute)
		cmd := exec.CommandContext(ctx, "go", "test", "-overlay", ov, "-vet=off", "-count=1", "-timeout", "540s", "-run", "^"+bc.Run+"$", "-v", "./"+bc.Pkg)
		cmd.Dir = repoRoot
		cmd.Env = append(os.Environ(), "GOFLAGS=-mod=mod", "GOPROXY=off")
		tb0 := time.Now()
		out, err := cmd.CombinedOutput()
		cancel()
		res := map[string]interface{}{"name": bc.Name, "bound": bc.Bound, "stands_in_for": bc.StandsIn, "seconds": round3(time.Since(tb0).Seconds()), "label": "bounded (not a proof)"}
		okLine := ""
		for _, l := range strings.Split(string(out), "\n") {
			if strings.HasPrefix(l, "BOUNDED-OK") {
				okLine = l
			}
		}
		if err == nil && okLine != "" {
			res["result"] = okLine
		} else {
			violations++
			p := filepath.Join(replayDir, "bounded_"+sanitize(bc.Name)+".txt")
			os.WriteFile(p, out, 0o644)
			res["result"] = "FAILED, see " + p
			fmt.Printf("VIOLATION property=%s replay=%s obligation=bounded:%s\n", id, p, bc.Name)
		}
		boundedRes = append(boundedRes, res)
	}
	if violations > 0 {
		exit = 1
	}
	// ---- evidence
	var funcs, trusted, havoced, notes []string
	tset := map[string]bool{}
	hset := map[string]bool{}
	for _, r := range results {
		funcs = append(funcs, r.Fn)
		for _, t := range r.Trusted {
			tset[t] = true
		}
		for _, h := range r.Havoced {
			hset[h] = true
		}
		notes = append(notes, r.Notes...)
	}
	for t := range tset {
		trusted = append(trusted, t)
	}
	for h := range hset {
		havoced = append(havoced, "external call havoced (result and reachable memory arbitrary): "+h)
	}
	sort.Strings(trusted)
	sort.Strings(havoced)
	tb := []string{"govc VC generator (this repository, /verif/govc): Go/SSA semantics, memory model, contract evaluation",
		"golang.org/x/tools/go/ssa v0.29.0 (Go source -> SSA lowering)", "SMT solvers: z3 5.1.0 (z3-new), z3 4.8.12, cvc5 1.0"}
	tb = append(tb, trusted...)
	assumptions := append([]string{}, pc.Assumptions...)
	assumptions = append(assumptions, havoced...)
	assumptions = append(assumptions, "function bodies are verified as sequential code (no goroutine interleaving)",
		"slice lengths and capacities are below 2^40; heap references loaded from memory were allocated earlier")
	for _, n := range pc.NotCovered {
		assumptions = append(assumptions, "not covered: "+n)
	}
	level := pc.Level
	if level == "" {
		level = "proof"
	}
	cov := map[string]interface{}{
		"discharged_from_hinted_hypotheses": func() int {
			n := 0
			for _, o := range all {
				if !o.Cover && o.ok() && strings.Contains(o.Res.Solver, "+hints") {
					n++
				}
			}
			return n
		}(),
		"obligations": nObl, "discharged": nDis, "vacuity_covers": nCover, "vacuity_covers_sat": nCoverSat, "known_finding_canaries": nCanary,
		"checker_cmd":              fmt.Sprintf("bin/govc check %s --tier %s", id, *tier),
		"trusted_base":             tb,
		"functions_under_contract": funcs,
		"per_backend_discharged":   perSolver,
		"per_backend_seconds":      roundMap(solverSecs),
		"samples":                  samples,
		"bounded":                  boundedRes,
		"unsupported_or_missing":   genFailNames(genFails),
		"solver_timeout_s":         timeout,
		"integers":                 "exact machine integers (bit-vectors of the Go width); nothing treated as mathematical",
		"floats":                   "uninterpreted functions per operation (congruence only) unless a lemma states otherwise",
		"explanation":              pc.Explanation,
		"engine_notes":             notes,
	}
	ev := map[string]interface{}{"property_id": id, "tier": *tier, "seed": seed, "level": level, "coverage": cov,
		"assumptions": assumptions, "wall_s": round3(time.Since(t0).Seconds()), "violations": violations}
	if !*noEvidence {
		if err := writeJSON(filepath.Join(verifRoot, "evidence", id+".json"), ev); err != nil {
			fmt.Fprintln(os.Stderr, "evidence:", err)
			return 2
		}
	}
	fmt.Printf("%s [%s]: %d/%d obligations discharged, %d functions, %d violations, %.1fs\n", id, *tier, nDis, nObl, len(funcs), violations, time.Since(t0).Seconds())
	if exit == 0 {
		os.RemoveAll(workDir)
	}
	return exit
}

type genFail struct{ name, reason string }

func genFailNames(g []genFail) []string {
	var out []string
	for _, x := range g {
		out = append(out, x.name+": "+x.reason)
	}
	return out
}

func posStr(o *Obligation) string {
	if o.Pos.Filename == "" {
		return ""
	}
	return fmt.Sprintf("%s:%d", strings.TrimPrefix(o.Pos.Filename, repoRoot+"/"), o.Pos.Line)
}

func round3(f float64) float64 { return float64(int(f*1000+0.5)) / 1000 }

func roundMap(m map[string]float64) map[string]float64 {
	r := map[string]float64{}
	for k, v := range m {
		r[k] = round3(v)
	}
	return r
}

func truncate(s string, n int) string {
	if len(s) > n {
		return s[:n] + "..."
	}
	return s
}

// evalCase evaluates a known-finding case expression over the entry state of the function.
func (ex *Exec) evalCase(res *FuncResult, src string) (t *Term, err error) {
	defer func() {
		if r := recover(); r != nil {
			err = fmt.Errorf("case %q: %v", src, r)
		}
	}()
	e, perr := parseExpr(src)
	if perr != nil {
		return nil, perr
	}
	env := *res.entryEnv
	env.st = ex.entry
	return ex.evalBool(&env, e), nil
}


func cmdSelftest(args []string) int { return 2 }
