package main

// Proof hints: which hypotheses a proof of an obligation used last time.
//
// The hard obligations of large functions have ~1000 candidate hypotheses (quantifier-free hypotheses and directed
// instances) of which a proof uses a dozen; finding those is what takes the time and what makes a solver run
// undecided under load. /verif/proofhints.json records, per obligation name, hashes of the hypotheses of an unsat
// core found earlier (`govc check <id> --record-hints`). A later run first asserts exactly the current candidates
// with those hashes and asks the solvers for `unsat`.
//
// The hints are not trusted: the query is built from the obligation generated from the current source, it contains
// only hypotheses of that obligation (or instances of its quantified hypotheses), and the solver has to answer
// `unsat` for it. A stale or wrong hint selects a set that does not prove the goal; the normal pipeline then runs
// as if there were no hint. Hashes ignore the counters in generated variable names (x!123), so they are stable
// across runs; a collision merely selects an extra hypothesis.

import (
	"crypto/sha1"
	"encoding/hex"
	"encoding/json"
	"fmt"
	"os"
	"path/filepath"
	"regexp"
	"sort"
	"strings"
	"sync"
)

var (
	hintsOnce   sync.Once
	proofHints  map[string][]string
	hintsMu     sync.Mutex
	newHints    = map[string][]string{}
	recordHints bool
	reCounter   = regexp.MustCompile(`![0-9]+`)
	reSkolem    = regexp.MustCompile(`^(sk_[A-Za-z]+)_[0-9]+`)
)

func hintsPath() string { return filepath.Join(verifRoot, "proofhints.json") }

func loadHints() map[string][]string {
	hintsOnce.Do(func() {
		proofHints = map[string][]string{}
		if os.Getenv("GOVC_NOHINTS") != "" {
			return
		}
		b, err := os.ReadFile(hintsPath())
		if err == nil {
			_ = json.Unmarshal(b, &proofHints)
		}
	})
	return proofHints
}

func canonName(n string) string {
	n = reCounter.ReplaceAllString(n, "")
	return reSkolem.ReplaceAllString(n, "$1")
}

// canonHash: structural hash of a term that ignores the counters of generated names.
type hasher struct {
	memo   map[*Term]string
	sorted bool // operands of commutative operators in hash order (independent of term creation order)
}

var commutativeOps = map[string]bool{"and": true, "or": true, "=": true, "distinct": true, "bvadd": true, "bvmul": true,
	"bvand": true, "bvor": true, "bvxor": true, "+": true, "*": true}

func (h *hasher) hash(t *Term) string {
	if s, ok := h.memo[t]; ok {
		return s
	}
	var sb strings.Builder
	sb.WriteString(t.Op)
	sb.WriteByte('|')
	sb.WriteString(canonName(t.Name))
	sb.WriteByte('|')
	if t.S != nil {
		sb.WriteString(t.S.key)
	}
	for _, b := range t.Bound {
		sb.WriteByte('^')
		sb.WriteString(h.hash(b))
	}
	var hs []string
	switch {
	case h.sorted && (t.Op == "bvadd" || t.Op == "bvsub" || t.Op == "bvneg"):
		// a sum is hashed as the multiset of its signed summands, whatever the nesting and order
		h.summands(t, "+", &hs)
		sort.Strings(hs)
		sb.Reset()
		sb.WriteString("sum|")
		if t.S != nil {
			sb.WriteString(t.S.key)
		}
	case h.sorted && (t.Op == "and" || t.Op == "or"):
		h.juncts(t, t.Op, &hs)
		sort.Strings(hs)
	default:
		for _, a := range t.Args {
			hs = append(hs, h.hash(a))
		}
		if h.sorted && commutativeOps[t.Op] {
			sort.Strings(hs)
		}
	}
	for _, x := range hs {
		sb.WriteByte(',')
		sb.WriteString(x)
	}
	sum := sha1.Sum([]byte(sb.String()))
	s := hex.EncodeToString(sum[:8])
	h.memo[t] = s
	return s
}

func (h *hasher) summands(t *Term, sign string, out *[]string) {
	flip := func(s string) string {
		if s == "+" {
			return "-"
		}
		return "+"
	}
	switch {
	case t.Op == "bvadd":
		for _, a := range t.Args {
			h.summands(a, sign, out)
		}
	case t.Op == "bvsub" && len(t.Args) == 2:
		h.summands(t.Args[0], sign, out)
		h.summands(t.Args[1], flip(sign), out)
	case t.Op == "bvneg" && len(t.Args) == 1:
		h.summands(t.Args[0], flip(sign), out)
	default:
		*out = append(*out, sign+h.hash(t))
	}
}

func (h *hasher) juncts(t *Term, op string, out *[]string) {
	if t.Op == op {
		for _, a := range t.Args {
			h.juncts(a, op, out)
		}
		return
	}
	*out = append(*out, h.hash(t))
}

// hintCandidates: goal and candidate hypotheses in the form the hints were recorded in.
func hintCandidates(q *Query) (*Term, []*Term) {
	lg, lc := q.LazyCandidates(dinstRounds())
	if lg == nil || len(lc) == 0 {
		return nil, nil
	}
	if os.Getenv("GOVC_NONORM") == "" {
		nq := (&Query{Hyps: lc, Goal: lg}).Normalized()
		lg, lc = nq.Goal, nq.Hyps
	}
	return lg, lc
}

// tryHints: prove the obligation from the hinted subset of its hypotheses.
func tryHints(name string, q *Query, dir string, timeoutS int, keep bool) (SolveResult, bool) {
	hs := loadHints()[name]
	if len(hs) == 0 {
		return SolveResult{}, false
	}
	lg, lc := hintCandidates(q)
	if lg == nil {
		return SolveResult{}, false
	}
	want := map[string]bool{}
	for _, h := range hs {
		want[h] = true
	}
	hh := &hasher{memo: map[*Term]string{}, sorted: true}
	hh0 := &hasher{memo: map[*Term]string{}}
	var sel []*Term
	for _, c := range lc {
		if want[hh.hash(c)] || want[hh0.hash(c)] {
			sel = append(sel, c)
		}
	}
	if os.Getenv("GOVC_DEBUG") != "" {
		got := map[string]bool{}
		for _, c := range sel {
			if want[hh.hash(c)] {
				got[hh.hash(c)] = true
			} else {
				got[hh0.hash(c)] = true
			}
		}
		fmt.Fprintf(os.Stderr, "hints %s: %d of %d hinted hashes present among %d candidates (%d selected)\n", name, len(got), len(want), len(lc), len(sel))
	}
	if len(sel) == 0 {
		return SolveResult{}, false
	}
	if d := os.Getenv("GOVC_DUMPCANDS"); d != "" {
		var lines []string
		for _, c := range lc {
			lines = append(lines, hh.hash(c)+" "+canonName(c.String()))
		}
		sort.Strings(lines)
		os.MkdirAll(d, 0o755)
		os.WriteFile(filepath.Join(d, sanitize(name)+".txt"), []byte(strings.Join(lines, "\n")+"\n"), 0o644)
	}
	hq := &Query{Hyps: sel, Goal: lg, Extra: q.Extra, FPMode: q.FPMode}
	f := writeQuery(dir, name+".hints", hq.Script(nil))
	r := RunPortfolio(f, timeoutS, "")
	if !keep {
		os.Remove(f)
	}
	if r.Status == "unsat" {
		r.Solver += fmt.Sprintf("+hints(%d/%d hyps)", len(sel), len(lc))
		return r, true
	}
	return r, false
}

// recordHintFor finds a small sufficient set of hypotheses for a proved obligation and remembers it.
func recordHintFor(o *Obligation, dir string) {
	if o.Cover || o.Goal == nil {
		return
	}
	q := &Query{Hyps: o.Hyps, Goal: o.Goal}
	lg, lc := hintCandidates(q)
	if lg == nil {
		return
	}
	var core []*Term
	for _, batch := range []int{40, 10, 4} {
		sel, ok := lazySelect(lg, lc, q.Extra, q.FPMode, dir, o.Name+".rec", batch)
		if !ok {
			return
		}
		core = unsatCore(lg, sel, q.Extra, q.FPMode, dir, o.Name+".rec")
		if os.Getenv("GOVC_DEBUG") != "" {
			fmt.Fprintf(os.Stderr, "hints %s: batch %d, selection %d, core %d\n", o.Name, batch, len(sel), len(core))
		}
		// the core must prove the goal quickly by itself
		cq := &Query{Hyps: core, Goal: lg, Extra: q.Extra, FPMode: q.FPMode}
		f := writeQuery(dir, o.Name+".rec.check", cq.Script(nil))
		r := RunPortfolio(f, 10, "")
		os.Remove(f)
		if r.Status == "unsat" {
			break
		}
		if os.Getenv("GOVC_DEBUG") != "" {
			fmt.Fprintf(os.Stderr, "hints %s: core of %d does not prove quickly (%s)\n", o.Name, len(core), r.Status)
		}
		core = nil
	}
	if core == nil {
		return
	}
	if len(core) > 30 {
		core = shrinkByDeletion(lg, core, q.Extra, q.FPMode, dir, o.Name+".rec")
	}
	hh := &hasher{memo: map[*Term]string{}, sorted: true}
	set := map[string]bool{}
	for _, c := range core {
		set[hh.hash(c)] = true
	}
	var hs []string
	for h := range set {
		hs = append(hs, h)
	}
	sort.Strings(hs)
	hintsMu.Lock()
	newHints[o.Name] = hs
	hintsMu.Unlock()
}

// lazySelect: the selection loop of lazyProve with patient solver calls; returns the sufficient selection.
func lazySelect(goal *Term, cands []*Term, extra []string, fpMode string, dir, name string, batch int) ([]*Term, bool) {
	var sel []*Term
	rest := append([]*Term{}, cands...)
	for it := 0; it < 400; it++ {
		q := &Query{Hyps: sel, Goal: goal, Extra: extra, FPMode: fpMode}
		f := writeQuery(dir, fmt.Sprintf("%s.lazy%d", name, it), q.scriptNamed(rest))
		r := RunPortfolio(f, 120, "")
		os.Remove(f)
		if r.Status == "unsat" {
			return sel, true
		}
		if r.Status != "sat" {
			return nil, false
		}
		out := r.Output
		k := strings.Index(out, "sat")
		es := parseSexps(out[k+3:])
		if len(es) == 0 || es[0].list == nil {
			return nil, false
		}
		vals := map[int]string{}
		for _, pair := range es[0].list {
			if len(pair.list) == 2 && strings.HasPrefix(pair.list[0].atom, "gv_") {
				var idx int
				fmt.Sscanf(pair.list[0].atom, "gv_%d", &idx)
				vals[idx] = pair.list[1].atom
			}
		}
		var viol, keepRest []*Term
		for i, c := range rest {
			if vals[i] == "false" && len(viol) < batch {
				viol = append(viol, c)
			} else {
				keepRest = append(keepRest, c)
			}
		}
		if len(viol) == 0 {
			return nil, false
		}
		sel = append(sel, viol...)
		rest = keepRest
	}
	return nil, false
}

// unsatCore asks z3 for an unsat core of the selection (falls back to the whole selection).
func unsatCore(goal *Term, sel0 []*Term, extra []string, fpMode string, dir, name string) []*Term {
	var sel []*Term
	seen := map[*Term]bool{}
	for _, c := range sel0 {
		if !seen[c] {
			seen[c] = true
			sel = append(sel, c)
		}
	}
	q := &Query{Hyps: sel, Goal: goal, Extra: extra, FPMode: fpMode}
	lines := strings.Split(q.Script(nil), "\n")
	// the hypotheses are the len(sel) assertions just before the last one (the negated goal)
	var idx []int
	for k, l := range lines {
		if strings.HasPrefix(l, "(assert ") {
			idx = append(idx, k)
		}
	}
	if len(idx) < len(sel)+1 {
		return sel
	}
	first := len(idx) - 1 - len(sel)
	num := map[int]int{}
	for n := 0; n < len(sel); n++ {
		num[idx[first+n]] = n
	}
	out := []string{"(set-option :produce-unsat-cores true)"}
	for k, l := range lines {
		if n, ok := num[k]; ok {
			out = append(out, fmt.Sprintf("(assert (! %s :named HC%d))", strings.TrimSuffix(strings.TrimPrefix(l, "(assert "), ")"), n))
			continue
		}
		if strings.HasPrefix(l, "(get-model") || strings.HasPrefix(l, "(get-value") {
			continue
		}
		out = append(out, l)
	}
	out = append(out, "(get-unsat-core)")
	f := writeQuery(dir, name+".core", strings.Join(out, "\n")+"\n")
	defer os.Remove(f)
	r := RunPortfolio(f, 180, "z3-new")
	if r.Status != "unsat" {
		return sel
	}
	i := strings.Index(r.Output, "(HC")
	if i < 0 {
		return sel
	}
	j := strings.Index(r.Output[i:], ")")
	if j < 0 {
		return sel
	}
	var core []*Term
	for _, w := range strings.Fields(r.Output[i+1 : i+j]) {
		var k int
		if _, err := fmt.Sscanf(w, "HC%d", &k); err == nil && k >= 0 && k < len(sel) {
			core = append(core, sel[k])
		}
	}
	if len(core) == 0 {
		return sel
	}
	return core
}

// saveHints merges the newly recorded hints into the hints file.
func saveHints() {
	hintsMu.Lock()
	defer hintsMu.Unlock()
	if len(newHints) == 0 {
		return
	}
	all := map[string][]string{}
	if b, err := os.ReadFile(hintsPath()); err == nil {
		_ = json.Unmarshal(b, &all)
	}
	// union with what is there: the same function is verified in several contexts (package sets of different
	// properties) whose terms differ slightly; hashes that do not occur in a context select nothing there
	for k, v := range newHints {
		set := map[string]bool{}
		for _, h := range all[k] {
			set[h] = true
		}
		for _, h := range v {
			set[h] = true
		}
		var hs []string
		for h := range set {
			hs = append(hs, h)
		}
		sort.Strings(hs)
		all[k] = hs
	}
	b, _ := json.MarshalIndent(all, "", " ")
	_ = os.WriteFile(hintsPath(), append(b, '\n'), 0o644)
}

// shrinkByDeletion: drop chunks of hypotheses while the rest still proves the goal within a few seconds
// (used when the solver's own unsat core is not available).
func shrinkByDeletion(goal *Term, sel []*Term, extra []string, fpMode string, dir, name string) []*Term {
	proves := func(hs []*Term) bool {
		q := &Query{Hyps: hs, Goal: goal, Extra: extra, FPMode: fpMode}
		f := writeQuery(dir, name+".shrink", q.Script(nil))
		r := RunPortfolio(f, 8, "")
		os.Remove(f)
		return r.Status == "unsat"
	}
	if !proves(sel) {
		return sel
	}
	cur := sel
	for chunk := (len(cur) + 3) / 4; chunk >= 1; chunk /= 2 {
		for i := 0; i < len(cur); {
			j := i + chunk
			if j > len(cur) {
				j = len(cur)
			}
			try := append(append([]*Term{}, cur[:i]...), cur[j:]...)
			if len(try) > 0 && proves(try) {
				cur = try
			} else {
				i = j
			}
		}
		if chunk == 1 {
			break
		}
	}
	return cur
}
