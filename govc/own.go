package main

// Ownership (provenance) obligations for caller-owned buffers (C13). Filled in by own checks when enabled.

import (
	"go/token"
)

func (ex *Exec) ownStore(fr *Frame, st *State, addr Val, v Val, pos token.Pos) {
	if !ex.ownCheck {
		return
	}
	ex.ownCheckStore(fr, st, addr, v, pos)
}

func (ex *Exec) ownEscape(fr *Frame, st *State, vs []Val, how string, pos token.Pos) {
	if !ex.ownCheck {
		return
	}
	ex.ownCheckEscape(fr, st, vs, how, pos)
}

func (ex *Exec) ownWrite(fr *Frame, st *State, dst Val, pos token.Pos) {
	if !ex.ownCheck {
		return
	}
	ex.ownCheckWrite(fr, st, dst, pos)
}

func (ex *Exec) ownCheckStore(fr *Frame, st *State, addr Val, v Val, pos token.Pos)     {}
func (ex *Exec) ownCheckEscape(fr *Frame, st *State, vs []Val, how string, pos token.Pos) {}
func (ex *Exec) ownCheckWrite(fr *Frame, st *State, dst Val, pos token.Pos)              {}
