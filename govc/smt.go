package main

// SMT-LIB2 printing of one obligation and the solver portfolio.

import (
	"bytes"
	"context"
	"fmt"
	"math/big"
	"os"
	"os/exec"
	"path/filepath"
	"sort"
	"strings"
	"sync"
	"time"
)

type Query struct {
	Hyps   []*Term
	Goal   *Term // prove Hyps => Goal   (assert not Goal); for cover: Goal==nil => check Hyps satisfiable
	Extra  []string
	FPMode string // "uf" (default) or "exact"
}

func collect(roots []*Term) (order []*Term, refc map[*Term]int) {
	refc = map[*Term]int{}
	seen := map[*Term]bool{}
	var rec func(t *Term)
	rec = func(t *Term) {
		refc[t]++
		if seen[t] {
			return
		}
		seen[t] = true
		for _, a := range t.Args {
			rec(a)
		}
		order = append(order, t)
	}
	for _, r := range roots {
		rec(r)
	}
	return
}

func (q *Query) Script(getValues []*Term) string {
	var sb strings.Builder
	roots := append([]*Term{}, q.Hyps...)
	if q.Goal != nil {
		roots = append(roots, q.Goal)
	}
	roots = append(roots, getValues...)
	order, refc := collect(roots)
	sb.WriteString("(set-option :produce-models true)\n(set-logic ALL)\n")
	usesF := false
	decl := map[string]string{}
	var declOrder []string
	addDecl := func(name, d string) {
		if old, ok := decl[name]; ok {
			if old != d {
				panic("conflicting declarations for " + name + ": " + old + " vs " + d)
			}
			return
		}
		decl[name] = d
		declOrder = append(declOrder, name)
	}
	for _, t := range order {
		if t.S.K == KF64 || t.S.K == KF32 {
			usesF = true
		}
		switch {
		case t.Op == "var":
			addDecl(t.Name, fmt.Sprintf("(declare-fun %s () %s)", smtName(t.Name), t.S.key))
		case t.Op == "fconst":
			addDecl("fc_"+t.Name, fmt.Sprintf("(declare-fun %s () %s)", smtName("fc_"+t.Name), t.S.key))
		case strings.HasPrefix(t.Op, "app:"):
			var as []string
			for _, a := range t.Args {
				as = append(as, a.S.key)
			}
			addDecl(t.Op[4:], fmt.Sprintf("(declare-fun %s (%s) %s)", smtName(t.Op[4:]), strings.Join(as, " "), t.S.key))
		}
	}
	if usesF {
		sb.WriteString("(declare-sort F64 0)\n(declare-sort F32 0)\n")
	}
	sort.Strings(declOrder)
	for _, n := range declOrder {
		sb.WriteString(decl[n])
		sb.WriteByte('\n')
	}
	for _, e := range q.Extra {
		sb.WriteString(e)
		sb.WriteByte('\n')
	}
	// shared closed sub-terms become define-funs
	names := map[*Term]string{}
	n := 0
	for _, t := range order {
		if len(t.Args) == 0 || len(t.fb) > 0 {
			continue
		}
		if refc[t] < 2 {
			continue
		}
		var b strings.Builder
		printTerm(&b, t, names)
		n++
		nm := fmt.Sprintf("?%d", n)
		fmt.Fprintf(&sb, "(define-fun %s () %s %s)\n", nm, t.S.key, b.String())
		names[t] = nm
	}
	seenHyp := map[*Term]bool{}
	for _, h := range q.Hyps {
		if seenHyp[h] {
			continue
		}
		seenHyp[h] = true
		sb.WriteString("(assert ")
		printTerm(&sb, h, names)
		sb.WriteString(")\n")
	}
	if q.Goal != nil {
		sb.WriteString("(assert (not ")
		printTerm(&sb, q.Goal, names)
		sb.WriteString("))\n")
	}
	sb.WriteString("(check-sat)\n")
	if len(getValues) > 0 {
		sb.WriteString("(get-value (")
		for _, v := range getValues {
			printTerm(&sb, v, names)
			sb.WriteByte(' ')
		}
		sb.WriteString("))\n")
	}
	return sb.String()
}

type SolveResult struct {
	Status string // unsat, sat, unknown, timeout, error
	Solver string
	Secs   float64
	Output string
	PerSolver map[string]string
}

type solverSpec struct {
	name string
	args func(timeoutS int, file string) []string
}

var solvers = []solverSpec{
	{"z3-new", func(t int, f string) []string { return []string{"z3-new", fmt.Sprintf("-T:%d", t), f} }},
	{"z3", func(t int, f string) []string { return []string{"z3", fmt.Sprintf("-T:%d", t), f} }},
	{"cvc5", func(t int, f string) []string {
		return []string{"cvc5", fmt.Sprintf("--tlimit=%d", t*1000), "--produce-models", f}
	}},
}

// arithmetic-oriented back end: cvc5 translating bit-vectors to integers (good at division/multiplication by constants)
var cvc5Int = solverSpec{"cvc5-int", func(t int, f string) []string {
	return []string{"cvc5", fmt.Sprintf("--tlimit=%d", t*1000), "--solve-bv-as-int=sum", f}
}}

var solverSem = make(chan struct{}, 14)

func firstLine(s string) string {
	s = strings.TrimSpace(s)
	if i := strings.IndexByte(s, '\n'); i >= 0 {
		return strings.TrimSpace(s[:i])
	}
	return s
}

// RunPortfolio runs all solvers on the script; the first definitive answer wins.
func RunPortfolio(file string, timeoutS int, only string) SolveResult {
	ctx, cancel := context.WithCancel(context.Background())
	defer cancel()
	type r struct {
		name, status, out string
		secs              float64
	}
	ch := make(chan r, len(solvers))
	var wg sync.WaitGroup
	cnt := 0
	list := solvers
	if only == "+int" {
		list = append(append([]solverSpec{}, solvers...), cvc5Int)
		only = ""
	}
	for _, s := range list {
		if only != "" && s.name != only {
			continue
		}
		cnt++
		wg.Add(1)
		go func(s solverSpec) {
			defer wg.Done()
			solverSem <- struct{}{}
			defer func() { <-solverSem }()
			if ctx.Err() != nil {
				ch <- r{s.name, "cancelled", "", 0}
				return
			}
			// the time limit is on the CPU time the solver consumes (see cpuclock.go); its own wall-clock limit and
			// the context's are wallSlack times longer and only stop a solver that is starved or stuck
			a := s.args(timeoutS*wallSlack, file)
			c, cc := context.WithTimeout(ctx, time.Duration(timeoutS*wallSlack+2)*time.Second)
			defer cc()
			cmd := exec.CommandContext(c, a[0], a[1:]...)
			var out bytes.Buffer
			cmd.Stdout = &out
			cmd.Stderr = &out
			t0 := time.Now()
			cpuOut := runWithCPULimit(cmd, float64(timeoutS))
			secs := time.Since(t0).Seconds()
			fl := firstLine(out.String())
			st := "unknown"
			switch {
			case fl == "unsat":
				st = "unsat"
			case fl == "sat":
				st = "sat"
			case ctx.Err() != nil:
				st = "cancelled"
			case cpuOut || fl == "timeout" || strings.Contains(fl, "timeout") || strings.Contains(fl, "interrupted") || c.Err() != nil:
				st = "timeout"
			case strings.HasPrefix(fl, "(error") || strings.Contains(fl, "rror"):
				st = "error"
			}
			ch <- r{s.name, st, out.String(), secs}
		}(s)
	}
	res := SolveResult{Status: "unknown", PerSolver: map[string]string{}}
	t0 := time.Now()
	for i := 0; i < cnt; i++ {
		x := <-ch
		res.PerSolver[x.name] = fmt.Sprintf("%s %.2fs", x.status, x.secs)
		if x.status == "unsat" || x.status == "sat" {
			if res.Status != "unsat" && res.Status != "sat" {
				res.Status, res.Solver, res.Secs, res.Output = x.status, x.name, x.secs, x.out
				cancel()
			}
		} else if res.Status != "unsat" && res.Status != "sat" {
			if x.status == "error" && res.Status != "timeout" {
				res.Status = "unknown"
				res.Output += x.name + ": " + firstLine(x.out) + "\n"
			} else if x.status == "timeout" {
				res.Status = "timeout"
			}
		}
	}
	if res.Secs == 0 {
		res.Secs = time.Since(t0).Seconds()
	}
	return res
}

func writeQuery(dir, name, script string) string {
	os.MkdirAll(dir, 0o755)
	f := filepath.Join(dir, sanitize(name)+".smt2")
	if len(f) > 240 {
		f = f[:200] + fmt.Sprintf("_%d.smt2", len(name))
	}
	os.WriteFile(f, []byte(script), 0o644)
	return f
}

// ---- model value parsing (get-value output)

type sexp struct {
	atom string
	list []*sexp
}

func parseSexps(s string) []*sexp {
	var out []*sexp
	pos := 0
	var parse func() *sexp
	skip := func() {
		for pos < len(s) && (s[pos] == ' ' || s[pos] == '\n' || s[pos] == '\t' || s[pos] == '\r') {
			pos++
		}
	}
	parse = func() *sexp {
		skip()
		if pos >= len(s) {
			return nil
		}
		if s[pos] == '(' {
			pos++
			e := &sexp{list: []*sexp{}}
			for {
				skip()
				if pos >= len(s) {
					return e
				}
				if s[pos] == ')' {
					pos++
					return e
				}
				e.list = append(e.list, parse())
			}
		}
		st := pos
		if s[pos] == '|' {
			pos++
			for pos < len(s) && s[pos] != '|' {
				pos++
			}
			pos++
			return &sexp{atom: s[st:pos]}
		}
		if s[pos] == '"' {
			pos++
			for pos < len(s) && s[pos] != '"' {
				pos++
			}
			pos++
			return &sexp{atom: s[st:pos]}
		}
		for pos < len(s) && !strings.ContainsRune(" \n\t\r()", rune(s[pos])) {
			pos++
		}
		return &sexp{atom: s[st:pos]}
	}
	for {
		e := parse()
		if e == nil {
			break
		}
		out = append(out, e)
	}
	return out
}

// scalarValue converts a model value s-expression into a big.Int (bools: 0/1); ok=false if not scalar.
func scalarValue(e *sexp) (*big.Int, bool) {
	if e == nil {
		return nil, false
	}
	if e.list == nil {
		a := e.atom
		switch {
		case a == "true":
			return big.NewInt(1), true
		case a == "false":
			return big.NewInt(0), true
		case strings.HasPrefix(a, "#x"):
			v, ok := new(big.Int).SetString(a[2:], 16)
			return v, ok
		case strings.HasPrefix(a, "#b"):
			v, ok := new(big.Int).SetString(a[2:], 2)
			return v, ok
		default:
			v, ok := new(big.Int).SetString(a, 10)
			return v, ok
		}
	}
	if len(e.list) == 2 && e.list[0].atom == "-" {
		v, ok := scalarValue(e.list[1])
		if ok {
			return new(big.Int).Neg(v), true
		}
	}
	if len(e.list) == 3 && e.list[0].atom == "_" && strings.HasPrefix(e.list[1].atom, "bv") {
		v, ok := new(big.Int).SetString(e.list[1].atom[2:], 10)
		return v, ok
	}
	return nil, false
}

// GetValues re-runs a sat query asking for values of the given closed terms.
func GetValues(q *Query, dir, name string, terms []*Term, solver string, timeoutS int) map[*Term]*big.Int {
	res := map[*Term]*big.Int{}
	if len(terms) == 0 {
		return res
	}
	f := writeQuery(dir, name+".model", q.Script(terms))
	var a []string
	for _, s := range solvers {
		if s.name == solver {
			a = s.args(timeoutS, f)
		}
	}
	if a == nil {
		a = solvers[0].args(timeoutS, f)
	}
	ctx, cc := context.WithTimeout(context.Background(), time.Duration(timeoutS+2)*time.Second)
	defer cc()
	out, _ := exec.CommandContext(ctx, a[0], a[1:]...).CombinedOutput()
	s := string(out)
	if firstLine(s) != "sat" {
		return res
	}
	s = s[strings.Index(s, "sat")+3:]
	es := parseSexps(s)
	if len(es) == 0 || es[0].list == nil {
		return res
	}
	for i, pair := range es[0].list {
		if i >= len(terms) || len(pair.list) != 2 {
			continue
		}
		if v, ok := scalarValue(pair.list[1]); ok {
			res[terms[i]] = v
		}
	}
	return res
}
