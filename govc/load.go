package main

// Loading /repo (go/packages -> go/ssa) and the contract files.

import (
	"bytes"
	"fmt"
	"go/ast"
	"go/printer"
	"go/token"
	"go/types"
	"os"
	"path/filepath"
	"sort"
	"strings"

	"golang.org/x/tools/go/ast/astutil"
	"golang.org/x/tools/go/packages"
	"golang.org/x/tools/go/ssa"
	"golang.org/x/tools/go/ssa/ssautil"
)

type Loaded struct {
	repo      string
	fset      *token.FileSet
	pkgs      []*packages.Package
	prog      *ssa.Program
	spkgs     map[string]*ssa.Package
	allPkgs   []*types.Package
	contracts map[string]*ContractFile // by package path
	files     map[string]*ast.File     // by filename
	strIDs    map[string]int
	strByID   map[string]string
	globals   map[*ssa.Global]int
	tags      map[string]int
	tagTypes  []types.Type
	tagByID   map[int]types.Type
	funcIndex map[string]*ssa.Function // fnKey -> function (incl. closures)
	// element types T for which a pointer to a slice element escapes (is stored, returned, merged ...)
	elemPtrTypes map[string]bool
	poolNew      map[*ssa.Global]*ssa.Function
	poolFieldNew map[string]*ssa.Function
}

func loadRepo(repo string, patterns []string) (*Loaded, error) {
	cfg := &packages.Config{Mode: packages.LoadAllSyntax, Dir: repo, BuildFlags: []string{"-tags=verif"},
		Env: append(os.Environ(), "GOFLAGS=-mod=mod", "GOPROXY=off")}
	pkgs, err := packages.Load(cfg, patterns...)
	if err != nil {
		return nil, err
	}
	var errs []string
	packages.Visit(pkgs, nil, func(p *packages.Package) {
		for _, e := range p.Errors {
			errs = append(errs, e.Error())
		}
	})
	if len(errs) > 0 {
		return nil, fmt.Errorf("package errors: %s", strings.Join(errs, "; "))
	}
	prog, _ := ssautil.AllPackages(pkgs, ssa.GlobalDebug|ssa.BareInits)
	prog.Build()
	ld := &Loaded{repo: repo, fset: cfg.Fset, pkgs: pkgs, prog: prog, spkgs: map[string]*ssa.Package{},
		contracts: map[string]*ContractFile{}, files: map[string]*ast.File{}, strIDs: map[string]int{}, strByID: map[string]string{},
		globals: map[*ssa.Global]int{}, tags: map[string]int{}, funcIndex: map[string]*ssa.Function{}}
	if len(pkgs) > 0 {
		ld.fset = pkgs[0].Fset
	}
	packages.Visit(pkgs, nil, func(p *packages.Package) {
		ld.allPkgs = append(ld.allPkgs, p.Types)
		for i, f := range p.Syntax {
			if i < len(p.CompiledGoFiles) {
				ld.files[p.CompiledGoFiles[i]] = f
			}
		}
	})
	for _, sp := range prog.AllPackages() {
		ld.spkgs[sp.Pkg.Path()] = sp
	}
	// contract files of in-repo packages
	packages.Visit(pkgs, nil, func(p *packages.Package) {
		if !strings.HasPrefix(p.PkgPath, "github.com/pion/interceptor") || len(p.GoFiles) == 0 {
			return
		}
		dir := filepath.Dir(p.GoFiles[0])
		path := filepath.Join(dir, "zz_contracts_verif.go")
		if _, err2 := os.Stat(path); err2 != nil {
			return
		}
		cf, err2 := readContractFile(path, p.PkgPath)
		if err2 != nil {
			err = err2
			return
		}
		ld.contracts[p.PkgPath] = cf
	})
	if err != nil {
		return nil, err
	}
	// assumed contracts on dependencies: /verif/specs/*.spec (one external package per file)
	specFiles, _ := filepath.Glob(filepath.Join(verifRoot, "specs", "*.spec"))
	sort.Strings(specFiles)
	for _, sfile := range specFiles {
		cf, err2 := readContractFile(sfile, "")
		if err2 != nil {
			return nil, err2
		}
		for _, fc := range cf.Funcs {
			fc.Trusted = true
			fc.Pkg = cf.Pkg
		}
		for _, fc := range cf.Ifaces {
			fc.Trusted = true
		}
		if old, ok := ld.contracts[cf.Pkg]; ok {
			for k, v := range cf.Funcs {
				old.Funcs[k] = v
			}
			for k, v := range cf.Specs {
				old.Specs[k] = v
			}
		} else {
			ld.contracts[cf.Pkg] = cf
		}
	}
	// ghost fields must be registered before any layout is computed
	for _, cf := range ld.contracts {
		pkg := ld.pkgByPath(cf.Pkg)
		for _, g := range cf.Ghosts {
			t := ld.resolveType(pkg, g.TypeName)
			k := typeKey(types.Unalias(t))
			ghostFields[k] = append(ghostFields[k], GhostField{Name: g.Name, T: ld.resolveType(pkg, g.T)})
		}
	}
	// function index
	ld.elemPtrTypes = map[string]bool{}
	for fn := range ssautil.AllFunctions(prog) {
		if inRepo(fn) {
			ld.funcIndex[fnKey(fn)] = fn
			for _, b := range fn.Blocks {
				for _, ins := range b.Instrs {
					ia, ok := ins.(*ssa.IndexAddr)
					if !ok {
						continue
					}
					if _, isSlice := ia.X.Type().Underlying().(*types.Slice); !isSlice {
						continue
					}
					for _, ref := range *ia.Referrers() {
						escapes := false
						switch r := ref.(type) {
						case *ssa.Store:
							escapes = r.Val == ia
						case *ssa.UnOp, *ssa.FieldAddr, *ssa.IndexAddr, *ssa.DebugRef:
						case *ssa.Call:
							// passing to a callee is fine when it is inlined with the location; method calls on the element too
						default:
							escapes = true
						}
						if escapes {
							et := ia.Type().Underlying().(*types.Pointer).Elem()
							ld.elemPtrTypes[typeKey(types.Unalias(et))] = true
						}
					}
				}
			}
		}
	}
	return ld, nil
}

func (ld *Loaded) pkgByPath(path string) *types.Package {
	for _, p := range ld.allPkgs {
		if p.Path() == path {
			return p
		}
	}
	return nil
}

func (ld *Loaded) contractFor(fn *ssa.Function) *FuncContract {
	p := pkgOf(fn)
	if p == nil {
		return nil
	}
	cf := ld.contracts[p.Path()]
	if cf == nil {
		return nil
	}
	return cf.Funcs[fn.RelString(p)]
}

func (ld *Loaded) specFunc(pkg *types.Package, name string) *SpecFunc {
	if pkg != nil {
		if cf := ld.contracts[pkg.Path()]; cf != nil {
			if sf := cf.Specs[name]; sf != nil {
				return sf
			}
		}
	}
	// spec functions of imported packages
	var keys []string
	for k := range ld.contracts {
		keys = append(keys, k)
	}
	sort.Strings(keys)
	for _, k := range keys {
		if sf := ld.contracts[k].Specs[name]; sf != nil {
			return sf
		}
	}
	return nil
}

func (ld *Loaded) findFunc(pkgPath, name string) *ssa.Function {
	sp := ld.spkgs[pkgPath]
	if sp == nil {
		return nil
	}
	return sp.Func(name)
}

func (ld *Loaded) strConst(s string) *Term {
	if s == "" {
		return IntC(0)
	}
	id, ok := ld.strIDs[s]
	if !ok {
		id = ld.stableID("str", s, func(n int) bool { _, used := ld.strByID[fmt.Sprint(-3000000-n)]; return used })
		ld.strIDs[s] = id
		ld.strByID[fmt.Sprint(-3000000-id)] = s
	}
	return IntC(int64(-3000000 - id))
}

// stableID: a number for a named thing that depends on its name only (not on the order in which things are first
// met), so that the terms of an obligation are the same whichever other functions were processed before it
// (proof hints are matched by term structure). Collisions are resolved by probing.
func (ld *Loaded) stableID(kind, name string, used func(int) bool) int {
	h := uint32(2166136261)
	for _, c := range []byte(kind + ":" + name) {
		h ^= uint32(c)
		h *= 16777619
	}
	id := int(h%900000) + 1
	for used(id) {
		id = id%900000 + 1
	}
	return id
}

func (ld *Loaded) globalRef(g *ssa.Global) *Term {
	id, ok := ld.globals[g]
	if !ok {
		name := g.Name()
		if g.Pkg != nil {
			name = g.Pkg.Pkg.Path() + "." + name
		}
		id = ld.stableID("global", name, func(n int) bool {
			for _, v := range ld.globals {
				if v == n {
					return true
				}
			}
			return false
		})
		ld.globals[g] = id
	}
	return IntC(int64(-2000000 - id))
}

// globalFacts: package-level error variables are non-nil, distinct sentinels.
func (ld *Loaded) globalFacts(ex *Exec, st *State, g *ssa.Global, v Val) {
	t := g.Type().Underlying().(*types.Pointer).Elem()
	if types.Identical(t, types.Universe.Lookup("error").Type()) && len(v.L) == 2 {
		ex.trustedUsed["package-level error variables are initialised to distinct non-nil errors"] = true
		tag := IntC(int64(ld.typeTag(types.NewPointer(ld.errorStringType()))))
		ex.assume(st, And(Eq(v.L[0], tag), Eq(v.L[1], IntC(int64(-4000000-ld.globals[g])))))
	}
}

var errStrT types.Type

func (ld *Loaded) errorStringType() types.Type {
	if errStrT == nil {
		for _, p := range ld.allPkgs {
			if p.Path() == "errors" {
				if o := p.Scope().Lookup("errorString"); o != nil {
					errStrT = o.Type()
				}
			}
		}
		if errStrT == nil {
			errStrT = types.NewStruct(nil, nil)
		}
	}
	return errStrT
}

func (ld *Loaded) typeTag(t types.Type) int {
	k := typeKey(types.Unalias(t))
	id, ok := ld.tags[k]
	if !ok {
		if ld.tagByID == nil {
			ld.tagByID = map[int]types.Type{}
		}
		id = ld.stableID("type", k, func(n int) bool { _, used := ld.tagByID[n]; return used })
		ld.tagByID[id] = t
		ld.tags[k] = id
	}
	return id
}

func (ld *Loaded) tagType(tag *Term) types.Type {
	var n int
	fmt.Sscanf(tag.Name, "%d", &n)
	t, ok := ld.tagByID[n]
	if !ok {
		panic("unknown type tag " + tag.Name)
	}
	return t
}

// exprTextAt returns the source text of the innermost interesting expression at pos.
func (ld *Loaded) exprTextAt(pos token.Pos) string {
	p := ld.fset.Position(pos)
	f := ld.files[p.Filename]
	if f == nil {
		return fmt.Sprintf("%s:%d", filepath.Base(p.Filename), p.Line)
	}
	path, _ := astutil.PathEnclosingInterval(f, pos, pos+1)
	for _, n := range path {
		switch n.(type) {
		case *ast.IndexExpr, *ast.SliceExpr, *ast.CallExpr, *ast.BinaryExpr, *ast.StarExpr, *ast.TypeAssertExpr, *ast.UnaryExpr,
			*ast.SelectorExpr, *ast.CompositeLit, *ast.AssignStmt, *ast.IncDecStmt, *ast.SendStmt, *ast.GoStmt, *ast.DeferStmt, *ast.RangeStmt, *ast.ForStmt:
			var buf bytes.Buffer
			printer.Fprint(&buf, ld.fset, n)
			s := strings.Join(strings.Fields(buf.String()), " ")
			if len(s) > 80 {
				s = s[:77] + "..."
			}
			return s
		}
	}
	return fmt.Sprintf("%s:%d", filepath.Base(p.Filename), p.Line)
}

// methodOf finds the method `name` of type t (or *t).
func (ld *Loaded) methodOf(t types.Type, name string) *ssa.Function {
	for _, tt := range []types.Type{t, types.NewPointer(t)} {
		ms := ld.prog.MethodSets.MethodSet(tt)
		for i := 0; i < ms.Len(); i++ {
			if ms.At(i).Obj().Name() == name {
				return ld.prog.MethodValue(ms.At(i))
			}
		}
	}
	if pt, ok := t.Underlying().(*types.Pointer); ok {
		ms := ld.prog.MethodSets.MethodSet(pt.Elem())
		for i := 0; i < ms.Len(); i++ {
			if ms.At(i).Obj().Name() == name {
				return ld.prog.MethodValue(ms.At(i))
			}
		}
	}
	return nil
}

// ifaceContract finds the contract declared for an interface method (iface Type.Method).
func (ld *Loaded) ifaceContract(t types.Type, method string) *FuncContract {
	n, ok := types.Unalias(t).(*types.Named)
	if !ok || n.Obj().Pkg() == nil {
		return nil
	}
	cf := ld.contracts[n.Obj().Pkg().Path()]
	if cf == nil {
		return nil
	}
	return cf.Ifaces[n.Obj().Name()+"."+method]
}

// poolNewFuncs: package-level sync.Pool variables initialised with a composite literal, and their New functions
// (found in the package initialisers: t = local sync.Pool; *(&t.New) = f; *global = *t).
func (ld *Loaded) poolNewFuncs() map[*ssa.Global]*ssa.Function {
	if ld.poolNew != nil {
		return ld.poolNew
	}
	ld.poolNew = map[*ssa.Global]*ssa.Function{}
	for _, sp := range ld.prog.AllPackages() {
		initF := sp.Func("init")
		if initF == nil {
			continue
		}
		if os.Getenv("GOVC_DEBUG") == "3" && strings.Contains(sp.Pkg.Path(), "flexfec") {
			fmt.Fprintf(os.Stderr, "init of %s: %d blocks\n", sp.Pkg.Path(), len(initF.Blocks))
		}
		newOf := map[ssa.Value]*ssa.Function{} // alloc -> New function
		for _, b := range initF.Blocks {
			for _, ins := range b.Instrs {
				st, ok := ins.(*ssa.Store)
				if !ok {
					continue
				}
				if os.Getenv("GOVC_DEBUG") == "3" && strings.HasSuffix(sp.Pkg.Path(), "flexfec") {
					fmt.Fprintf(os.Stderr, "  store %T <- %T (%s)\n", st.Addr, st.Val, st.Val)
				}
				if fa, ok := st.Addr.(*ssa.FieldAddr); ok {
					pt, ok := fa.X.Type().Underlying().(*types.Pointer)
					if !ok {
						continue
					}
					stt, ok := pt.Elem().Underlying().(*types.Struct)
					if !ok || fa.Field >= stt.NumFields() || stt.Field(fa.Field).Name() != "New" {
						continue
					}
					if n, ok := pt.Elem().(*types.Named); !ok || n.Obj().Pkg() == nil || n.Obj().Pkg().Path() != "sync" || n.Obj().Name() != "Pool" {
						continue
					}
					if g, isG := fa.X.(*ssa.Global); isG {
						if f, ok := st.Val.(*ssa.Function); ok {
							ld.poolNew[g] = f
						}
						continue
					}
					switch v := st.Val.(type) {
					case *ssa.Function:
						newOf[fa.X] = v
					case *ssa.MakeClosure:
						if f, ok := v.Fn.(*ssa.Function); ok && len(v.Bindings) == 0 {
							newOf[fa.X] = f
						}
					}
				}
				if g, ok := st.Addr.(*ssa.Global); ok {
					if u, ok := st.Val.(*ssa.UnOp); ok {
						if f := newOf[u.X]; f != nil {
							ld.poolNew[g] = f
						}
					}
				}
			}
		}
	}
	return ld.poolNew
}

func isSyncPoolPtr(t types.Type) bool {
	pt, ok := t.Underlying().(*types.Pointer)
	if !ok {
		return false
	}
	n, ok := types.Unalias(pt.Elem()).(*types.Named)
	return ok && n.Obj().Pkg() != nil && n.Obj().Pkg().Path() == "sync" && n.Obj().Name() == "Pool"
}

// poolFieldNewFuncs: struct fields of type *sync.Pool that are only ever assigned a pool literal with one
// capture-free New function (key: normKey(struct type) + "." + field name). Checked mechanically: every store to
// the field anywhere in the loaded packages of the repository must be `&sync.Pool{New: <that function>}`;
// a field with any other store (a pool without New, a pool passed in, two different New functions) is left out.
func (ld *Loaded) poolFieldNewFuncs() map[string]*ssa.Function {
	if ld.poolFieldNew != nil {
		return ld.poolFieldNew
	}
	ld.poolFieldNew = map[string]*ssa.Function{}
	bad := map[string]bool{}
	var visit func(f *ssa.Function)
	visit = func(f *ssa.Function) {
		newOf := map[ssa.Value]*ssa.Function{}
		hasNew := map[ssa.Value]bool{}
		for _, b := range f.Blocks {
			for _, ins := range b.Instrs {
				st, ok := ins.(*ssa.Store)
				if !ok {
					continue
				}
				fa, ok := st.Addr.(*ssa.FieldAddr)
				if !ok {
					continue
				}
				pt, ok := fa.X.Type().Underlying().(*types.Pointer)
				if !ok {
					continue
				}
				stt, ok := pt.Elem().Underlying().(*types.Struct)
				if !ok || fa.Field >= stt.NumFields() {
					continue
				}
				if isSyncPoolPtr(fa.X.Type()) && stt.Field(fa.Field).Name() == "New" {
					hasNew[fa.X] = true
					switch v := st.Val.(type) {
					case *ssa.Function:
						newOf[fa.X] = v
					case *ssa.MakeClosure:
						if fn, ok := v.Fn.(*ssa.Function); ok && len(v.Bindings) == 0 {
							newOf[fa.X] = fn
						}
					}
					continue
				}
				if !isSyncPoolPtr(stt.Field(fa.Field).Type()) {
					continue
				}
				key := normKey(pt.Elem()) + "." + stt.Field(fa.Field).Name()
				fn := newOf[st.Val]
				if _, isAlloc := st.Val.(*ssa.Alloc); !isAlloc || fn == nil {
					bad[key] = true
					continue
				}
				if old, ok := ld.poolFieldNew[key]; ok && old != fn {
					bad[key] = true
					continue
				}
				ld.poolFieldNew[key] = fn
			}
		}
		for _, af := range f.AnonFuncs {
			visit(af)
		}
	}
	for _, sp := range ld.prog.AllPackages() {
		if !strings.HasPrefix(sp.Pkg.Path(), "github.com/pion/interceptor") {
			continue
		}
		for _, m := range sp.Members {
			if f, ok := m.(*ssa.Function); ok {
				visit(f)
			}
		}
		for _, m := range sp.Members {
			if t, ok := m.(*ssa.Type); ok {
				for _, tt := range []types.Type{t.Type(), types.NewPointer(t.Type())} {
					ms := ld.prog.MethodSets.MethodSet(tt)
					for i := 0; i < ms.Len(); i++ {
						if f := ld.prog.MethodValue(ms.At(i)); f != nil && f.Pkg == sp {
							visit(f)
						}
					}
				}
			}
		}
	}
	for k := range bad {
		delete(ld.poolFieldNew, k)
	}
	return ld.poolFieldNew
}
