package main

// Evaluation of contract expressions to symbolic values.

import (
	"fmt"
	"sort"
	"go/constant"
	"go/token"
	"go/types"
	"math/big"
	"strings"

	"golang.org/x/tools/go/ssa"
)

type Env struct {
	ex          *Exec
	fr          *Frame
	st          *State
	old         *State
	vars        map[string]Val
	over        map[string]Val
	phiOver     map[ssa.Value]Val
	block       *ssa.BasicBlock
	results     []Val
	resultNames []string
	pkg         *types.Package
	depth       int
	recDepth    int
	// parameter names denote their entry values (postconditions and old(...))
	paramsEntry bool
}

func (ex *Exec) envAt(fr *Frame, st *State, b *ssa.BasicBlock) *Env {
	return &Env{ex: ex, fr: fr, st: st, old: ex.entry, vars: map[string]Val{}, block: b, pkg: pkgOf(fr.fn)}
}

func (env *Env) with(vars map[string]Val) *Env {
	n := *env
	n.vars = map[string]Val{}
	for k, v := range env.vars {
		n.vars[k] = v
	}
	for k, v := range vars {
		n.vars[k] = v
	}
	return &n
}

type specErr struct{ msg string }

func (e *specErr) Error() string { return "spec error: " + e.msg }
func sfail(f string, a ...interface{}) {
	panic(&specErr{fmt.Sprintf(f, a...)})
}

func constVal(v *big.Int) Val { return Val{T: types.Typ[types.UntypedInt], Const: v} }

func (ex *Exec) evalBool(env *Env, e Expr) *Term {
	v := ex.eval(env, e)
	if v.Const != nil {
		if b, ok := v.Const.(bool); ok {
			return BoolT(b)
		}
	}
	if len(v.L) != 1 || v.L[0].S != BoolS {
		sfail("boolean expected, got %s", v.T)
	}
	return v.L[0]
}

// resolveType parses a type expression in the package scope.
func (ld *Loaded) resolveType(pkg *types.Package, s string) types.Type {
	s = strings.TrimSpace(s)
	switch {
	case s == "mathint":
		return MathInt
	case strings.HasPrefix(s, "*"):
		return types.NewPointer(ld.resolveType(pkg, s[1:]))
	case strings.HasPrefix(s, "map["):
		depth := 0
		for i := 3; i < len(s); i++ {
			if s[i] == '[' {
				depth++
			} else if s[i] == ']' {
				depth--
				if depth == 0 {
					return types.NewMap(ld.resolveType(pkg, s[4:i]), ld.resolveType(pkg, s[i+1:]))
				}
			}
		}
		sfail("bad map type %s", s)
	case strings.HasPrefix(s, "[]"):
		return types.NewSlice(ld.resolveType(pkg, s[2:]))
	case strings.HasPrefix(s, "["):
		k := strings.Index(s, "]")
		inner := s[1:k]
		if inner != "" && inner[0] >= '0' && inner[0] <= '9' {
			var n int64
			fmt.Sscanf(inner, "%d", &n)
			return types.NewArray(ld.resolveType(pkg, s[k+1:]), n)
		}
		return &SpecMap{K: ld.resolveType(pkg, inner), V: ld.resolveType(pkg, s[k+1:])}
	}
	if k := strings.Index(s, "."); k >= 0 {
		pn, tn := s[:k], s[k+1:]
		for _, imp := range ld.allPkgs {
			if imp.Name() == pn || imp.Path() == pn {
				if o := imp.Scope().Lookup(tn); o != nil {
					if _, ok := o.(*types.TypeName); ok {
						return o.Type()
					}
				}
			}
		}
		sfail("unknown type %s", s)
	}
	if o := types.Universe.Lookup(s); o != nil {
		if tn, ok := o.(*types.TypeName); ok {
			return tn.Type()
		}
	}
	if pkg != nil {
		if o := pkg.Scope().Lookup(s); o != nil {
			if tn, ok := o.(*types.TypeName); ok {
				return tn.Type()
			}
		}
	}
	sfail("unknown type %s", s)
	return nil
}

func (ld *Loaded) isTypeName(pkg *types.Package, s string) bool {
	if s == "mathint" {
		return true
	}
	if o := types.Universe.Lookup(s); o != nil {
		_, ok := o.(*types.TypeName)
		return ok
	}
	if pkg != nil {
		if o := pkg.Scope().Lookup(s); o != nil {
			_, ok := o.(*types.TypeName)
			return ok
		}
	}
	return false
}

// coerce converts an untyped constant to type t.
func coerce(v Val, t types.Type) Val {
	if v.Const == nil {
		return v
	}
	switch c := v.Const.(type) {
	case *big.Int:
		if w, _, ok := isIntType(t); ok {
			return scalar(t, BVC(c, w))
		}
		if _, ok := t.Underlying().(*SpecInt); ok {
			return scalar(t, IntC(c.Int64()))
		}
		if isFloatType(t) {
			f, _ := new(big.Float).SetInt(c).Float64()
			return scalar(t, FConst(float64bits(f), layoutOf(t).Leaves[0].S))
		}
	case bool:
		return scalar(t, BoolT(c))
	case nil:
	}
	if _, ok := v.Const.(nilConst); ok {
		return zeroVal(t)
	}
	sfail("cannot use constant %v as %s", v.Const, t)
	return Val{}
}

type nilConst struct{}

// specMapKey: a key expression of a specification as a value of the map's key type (a concrete value used as
// the key of a map keyed by an interface type is boxed, as the compiler does).
func (ex *Exec) specMapKey(env *Env, k Val, kt types.Type) Val {
	if _, isIface := kt.Underlying().(*types.Interface); isIface && k.Const == nil && k.T != nil {
		if _, already := k.T.Underlying().(*types.Interface); !already {
			return ex.makeInterface(env.st, k, kt)
		}
	}
	return coerce(k, kt)
}

func defaultType(v Val) Val {
	if v.Const == nil {
		return v
	}
	switch v.Const.(type) {
	case *big.Int:
		return coerce(v, types.Typ[types.Int])
	case bool:
		return coerce(v, types.Typ[types.Bool])
	}
	sfail("untyped nil needs a type")
	return v
}

func (ex *Exec) eval(env *Env, e Expr) Val {
	switch x := e.(type) {
	case *EInt:
		return constVal(x.V)
	case *EBool:
		return Val{T: types.Typ[types.UntypedBool], Const: x.V}
	case *ENil:
		return Val{T: types.Typ[types.UntypedNil], Const: nilConst{}}
	case *EStr:
		return scalar(types.Typ[types.String], ex.ld.strConst(x.S))
	case *EFloat:
		return scalar(types.Typ[types.Float64], FConst(float64bits(x.V), F64S))
	case *EIdent:
		return ex.evalIdent(env, x.Name)
	case *EOld:
		n := *env
		n.st = env.old
		n.over = nil
		n.phiOver = nil
		n.paramsEntry = true
		return ex.eval(&n, x.X)
	case *EUnary:
		if x.Op == "&" {
			// address of a field: &p.f  (interior pointer)
			if ix, isIdx := x.X.(*EIndex); isIdx {
				// address of a slice element: &s[i]
				b := ex.eval(env, ix.X)
				if _, isSl := b.T.Underlying().(*types.Slice); !isSl {
					sfail("&x[i] needs a slice")
				}
				el := sliceElemLoc(b, ex.specIdx(ex.eval(env, ix.I)))
				r := Val{T: types.NewPointer(el.T), Loc: el}
				if ex.ld.elemPtrTypes[typeKey(types.Unalias(el.T))] {
					r.L = []*Term{ex.encodeElemPtr(env.st, el)}
				}
				return r
			}
			sel, ok := x.X.(*ESel)
			if !ok {
				sfail("& needs a field selector")
			}
			base := ex.eval(env, sel.X)
			loc := ex.fieldLoc(base, sel.Sel)
			return Val{T: types.NewPointer(loc.T), Loc: loc}
		}
		v := ex.eval(env, x.X)
		switch x.Op {
		case "!":
			if b, ok := v.Const.(bool); ok {
				return Val{T: v.T, Const: !b}
			}
			return scalar(v.T, Not(v.Term()))
		case "-":
			if c, ok := v.Const.(*big.Int); ok {
				return constVal(new(big.Int).Neg(c))
			}
			if _, ok := v.T.Underlying().(*SpecInt); ok {
				return scalar(v.T, IntOp("-", IntC(0), v.Term()))
			}
			if isFloatType(v.T) {
				return scalar(v.T, fop("fneg", v.Term().S, v.Term()))
			}
			return scalar(v.T, BVNeg(v.Term()))
		case "^":
			return scalar(v.T, BVNot(v.Term()))
		}
	case *EBinary:
		return ex.evalBinary(env, x)
	case *EQuant:
		vars := map[string]Val{}
		var bs []*Term
		for _, qv := range x.Vars {
			t := ex.ld.resolveType(env.pkg, qv.T)
			l := layoutOf(t)
			if len(l.Leaves) != 1 {
				sfail("quantified variable %s of composite type %s", qv.Name, qv.T)
			}
			b := BoundVar(qv.Name, l.Leaves[0].S)
			bs = append(bs, b)
			vars[qv.Name] = scalar(t, b)
		}
		if x.Lambda {
			if len(bs) != 1 {
				sfail("lambda takes one variable")
			}
			bv := ex.eval(env.with(vars), x.Body)
			if bv.Const != nil {
				bv = defaultType(bv)
			}
			kt := ex.ld.resolveType(env.pkg, x.Vars[0].T)
			r := Val{T: &SpecMap{K: kt, V: bv.T}}
			var eqs []*Term
			for _, leaf := range bv.L {
				a := FreshVar("lam", ArrS(bs[0].S, leaf.S))
				r.L = append(r.L, a)
				eqs = append(eqs, Eq(Select(a, bs[0]), leaf))
			}
			ex.assume(env.st, Forall(bs, And(eqs...)))
			return r
		}
		body := ex.evalBool(env.with(vars), x.Body)
		if x.Forall {
			return scalar(types.Typ[types.Bool], Forall(bs, body))
		}
		return scalar(types.Typ[types.Bool], Exists(bs, body))
	case *ESel:
		return ex.evalSel(env, x)
	case *EIndex:
		return ex.evalIndex(env, x)
	case *ESlice:
		b := ex.eval(env, x.X)
		if pt, ok := b.T.Underlying().(*types.Pointer); ok {
			if _, isArr := pt.Elem().Underlying().(*types.Array); isArr {
				sfail("slice of array pointer in spec")
			}
		}
		if _, ok := b.T.Underlying().(*types.Slice); !ok {
			sfail("slice expression on %s", b.T)
		}
		lo := BVI(0, 64)
		hi := sliceLen(b)
		if x.Lo != nil {
			lo = ex.specIdx(ex.eval(env, x.Lo))
		}
		if x.Hi != nil {
			hi = ex.specIdx(ex.eval(env, x.Hi))
		}
		return mkSlice(b.T, sliceArr(b), BVBin("bvadd", sliceOff(b), lo), BVBin("bvsub", hi, lo), BVBin("bvsub", sliceCap(b), lo))
	case *ECall:
		return ex.evalCall(env, x)
	}
	sfail("cannot evaluate %T", e)
	return Val{}
}

func (ex *Exec) specIdx(v Val) *Term {
	if c, ok := v.Const.(*big.Int); ok {
		return BVC(c, 64)
	}
	if _, ok := v.T.Underlying().(*SpecInt); ok {
		sfail("mathint used as index")
	}
	return ex.toInt64(v)
}

func (ex *Exec) evalIdent(env *Env, name string) Val {
	if v, ok := env.vars[name]; ok {
		return v
	}
	if v, ok := env.over[name]; ok {
		return v
	}
	if name == "result" && len(env.results) >= 1 {
		return env.results[0]
	}
	if strings.HasPrefix(name, "result") && len(name) == 7 {
		i := int(name[6] - '0')
		if i < len(env.results) {
			return env.results[i]
		}
	}
	for i, rn := range env.resultNames {
		if rn == name && rn != "" && i < len(env.results) {
			return env.results[i]
		}
	}
	if env.fr != nil {
		if v, ok := ex.lookupNameEnv(env, name); ok {
			return v
		}
	}
	if v, ok := ex.params[name]; ok && env.fr == nil {
		return v
	}
	// package-level constant / variable
	if env.pkg != nil {
		if o := env.pkg.Scope().Lookup(name); o != nil {
			return ex.objVal(env, o)
		}
	}
	if o := types.Universe.Lookup(name); o != nil {
		if c, ok := o.(*types.Const); ok {
			return ex.constObj(c)
		}
	}
	sfail("unknown identifier %s", name)
	return Val{}
}

func (ex *Exec) lookupNameEnv(env *Env, name string) (Val, bool) {
	fr := env.fr
	if env.paramsEntry {
		for _, p := range fr.fn.Params {
			if p.Name() == name {
				if v, ok := fr.regs[p]; ok {
					return v, true
				}
			}
		}
	}
	// phi overrides by value identity
	if env.phiOver != nil {
		for i := len(fr.names) - 1; i >= 0; i-- {
			r := fr.names[i]
			if r.name == name && (env.block == nil || r.block == env.block || r.block.Dominates(env.block)) {
				if v, ok := env.phiOver[r.val]; ok {
					return v, true
				}
				break
			}
		}
	}
	return ex.lookupName(fr, name, env.block, env.st)
}

func (ex *Exec) constObj(c *types.Const) Val {
	v := c.Val()
	switch v.Kind() {
	case constant.Bool:
		return Val{T: types.Typ[types.UntypedBool], Const: constant.BoolVal(v)}
	case constant.Int:
		b, _ := new(big.Int).SetString(v.ExactString(), 10)
		r := constVal(b)
		if bt, ok := c.Type().Underlying().(*types.Basic); ok && bt.Info()&types.IsUntyped == 0 {
			return coerce(r, c.Type())
		}
		return r
	case constant.Float:
		f, _ := constant.Float64Val(v)
		return scalar(types.Typ[types.Float64], FConst(float64bits(f), F64S))
	case constant.String:
		return scalar(types.Typ[types.String], ex.ld.strConst(constant.StringVal(v)))
	}
	sfail("constant %s of unsupported kind", c.Name())
	return Val{}
}

func (ex *Exec) objVal(env *Env, o types.Object) Val {
	switch c := o.(type) {
	case *types.Const:
		return ex.constObj(c)
	case *types.Var:
		// package-level variable: load
		for _, p := range ex.ld.prog.AllPackages() {
			if p.Pkg == o.Pkg() {
				if g, ok := p.Members[o.Name()].(*ssa.Global); ok {
					ptr := scalar(g.Type(), ex.ld.globalRef(g))
					v := env.st.load(ex.locOf(ptr))
					ex.ld.globalFacts(ex, env.st, g, v)
					return v
				}
			}
		}
	}
	sfail("cannot use %s in a spec", o.Name())
	return Val{}
}

func (ex *Exec) deref(env *Env, v Val) Val {
	if _, ok := v.T.Underlying().(*types.Pointer); ok {
		return env.st.load(ex.locOf(v))
	}
	return v
}

func (ex *Exec) evalSel(env *Env, x *ESel) Val {
	// package-qualified name
	if id, ok := x.X.(*EIdent); ok {
		if _, isVar := env.vars[id.Name]; !isVar {
			known := false
			if env.fr != nil {
				_, known = ex.lookupName(env.fr, id.Name, env.block, env.st)
			}
			if !known && env.pkg != nil {
				for _, imp := range env.pkg.Imports() {
					if imp.Name() == id.Name {
						if o := imp.Scope().Lookup(x.Sel); o != nil {
							return ex.objVal(env, o)
						}
					}
				}
			}
		}
	}
	b := ex.eval(env, x.X)
	return ex.selField(env, b, x.Sel)
}

func (ex *Exec) selField(env *Env, b Val, sel string) Val {
	if pt, ok := b.T.Underlying().(*types.Pointer); ok {
		loc := ex.locOf(b)
		lo := layoutOf(loc.T)
		for _, f := range lo.Fields {
			if f.Name == sel {
				nl := *loc
				nl.Off += f.Off
				nl.T = f.T
				if loc.Alt != nil {
					al := *loc.Alt
					al.Off += f.Off
					al.T = f.T
					nl.Alt = &al
				}
				v := env.st.load(&nl)
				closed := true
				for _, l := range v.L {
					if len(l.fb) > 0 {
						closed = false
					}
				}
				if closed {
					ex.refFacts(env.st, v) // heap well-formedness of loaded references
				}
				return v
			}
		}
		// promoted through embedded fields
		if st, ok := pt.Elem().Underlying().(*types.Struct); ok {
			for i := 0; i < st.NumFields(); i++ {
				if st.Field(i).Embedded() {
					f := lo.Fields[i]
					nl := offLoc(loc, f.Off, f.T)
					inner := Val{T: types.NewPointer(f.T), Loc: nl}
					if _, isPtr := f.T.Underlying().(*types.Pointer); isPtr {
						inner = env.st.load(nl)
					}
					if r, ok := ex.trySel(env, inner, sel); ok {
						return r
					}
				}
			}
		}
		sfail("no field %s in %s", sel, pt.Elem())
	}
	if v, ok := fieldByName(b, sel); ok {
		return v
	}
	if sel == "len" {
		return scalar(types.Typ[types.Int], sliceLen(b))
	}
	sfail("no field %s in %s", sel, b.T)
	return Val{}
}

func (ex *Exec) trySel(env *Env, b Val, sel string) (v Val, ok bool) {
	defer func() {
		if r := recover(); r != nil {
			if _, is := r.(*specErr); is {
				ok = false
				return
			}
			panic(r)
		}
	}()
	return ex.selField(env, b, sel), true
}

func (ex *Exec) evalIndex(env *Env, x *EIndex) Val {
	b := ex.eval(env, x.X)
	iv := ex.eval(env, x.I)
	switch u := b.T.Underlying().(type) {
	case *types.Slice:
		return env.st.load(sliceElemLoc(b, ex.specIdx(iv)))
	case *types.Array:
		return arrayIndex(b, ex.specIdx(iv))
	case *types.Pointer:
		if _, ok := u.Elem().Underlying().(*types.Array); ok {
			return arrayIndex(env.st.load(ex.locOf(b)), ex.specIdx(iv))
		}
	case *SpecMap:
		k := coerce(iv, u.K)
		r := Val{T: u.V, L: make([]*Term, len(b.L))}
		for i := range b.L {
			r.L[i] = Select(b.L[i], k.Term())
		}
		return r
	case *types.Map:
		k := coerce(iv, u.Key())
		v, _ := ex.mapGet(env.st, b, k.L)
		return v
	}
	sfail("cannot index %s", b.T)
	return Val{}
}

func foldConst(op string, a, b *big.Int) (Val, bool) {
	r := new(big.Int)
	switch op {
	case "+":
		r.Add(a, b)
	case "-":
		r.Sub(a, b)
	case "*":
		r.Mul(a, b)
	case "/":
		if b.Sign() == 0 {
			return Val{}, false
		}
		r.Quo(a, b)
	case "%":
		if b.Sign() == 0 {
			return Val{}, false
		}
		r.Rem(a, b)
	case "<<":
		r.Lsh(a, uint(b.Int64()))
	case ">>":
		r.Rsh(a, uint(b.Int64()))
	case "&":
		r.And(a, b)
	case "|":
		r.Or(a, b)
	case "^":
		r.Xor(a, b)
	case "==":
		return Val{T: types.Typ[types.UntypedBool], Const: a.Cmp(b) == 0}, true
	case "!=":
		return Val{T: types.Typ[types.UntypedBool], Const: a.Cmp(b) != 0}, true
	case "<":
		return Val{T: types.Typ[types.UntypedBool], Const: a.Cmp(b) < 0}, true
	case "<=":
		return Val{T: types.Typ[types.UntypedBool], Const: a.Cmp(b) <= 0}, true
	case ">":
		return Val{T: types.Typ[types.UntypedBool], Const: a.Cmp(b) > 0}, true
	case ">=":
		return Val{T: types.Typ[types.UntypedBool], Const: a.Cmp(b) >= 0}, true
	default:
		return Val{}, false
	}
	return constVal(r), true
}

var tokOf = map[string]token.Token{"+": token.ADD, "-": token.SUB, "*": token.MUL, "/": token.QUO, "%": token.REM,
	"&": token.AND, "|": token.OR, "^": token.XOR, "&^": token.AND_NOT, "<<": token.SHL, ">>": token.SHR,
	"==": token.EQL, "!=": token.NEQ, "<": token.LSS, "<=": token.LEQ, ">": token.GTR, ">=": token.GEQ}

func (ex *Exec) evalBinary(env *Env, x *EBinary) Val {
	bt := types.Typ[types.Bool]
	switch x.Op {
	case "&&":
		return scalar(bt, And(ex.evalBool(env, x.X), ex.evalBool(env, x.Y)))
	case "||":
		return scalar(bt, Or(ex.evalBool(env, x.X), ex.evalBool(env, x.Y)))
	case "==>":
		a := ex.evalBool(env, x.X)
		if a.Op == "false" {
			return scalar(bt, True)
		}
		return scalar(bt, Implies(a, ex.evalBool(env, x.Y)))
	case "<==>":
		return scalar(bt, Iff(ex.evalBool(env, x.X), ex.evalBool(env, x.Y)))
	}
	a := ex.eval(env, x.X)
	b := ex.eval(env, x.Y)
	if ca, ok := a.Const.(*big.Int); ok {
		if cb, ok := b.Const.(*big.Int); ok {
			if r, ok := foldConst(x.Op, ca, cb); ok {
				return r
			}
		}
	}
	isShift := x.Op == "<<" || x.Op == ">>"
	if isShift {
		a = defaultType(a)
		if b.Const != nil {
			b = coerce(b, types.Typ[types.Uint64])
		}
	} else {
		if a.Const != nil && b.Const != nil {
			if ba, ok := a.Const.(bool); ok {
				bb := b.Const.(bool)
				if x.Op == "==" {
					return Val{T: a.T, Const: ba == bb}
				}
				return Val{T: a.T, Const: ba != bb}
			}
			a, b = defaultType(a), defaultType(b)
		} else if a.Const != nil {
			a = coerce(a, b.T)
		} else if b.Const != nil {
			b = coerce(b, a.T)
		}
	}
	op, ok := tokOf[x.Op]
	if !ok {
		sfail("operator %s", x.Op)
	}
	rt := a.T
	switch op {
	case token.EQL, token.NEQ, token.LSS, token.LEQ, token.GTR, token.GEQ:
		rt = bt
	}
	if !isShift && len(a.L) == 1 && len(b.L) == 1 && a.L[0].S != b.L[0].S {
		sfail("operands of %s have different types: %s vs %s in %s %s %s", x.Op, a.T, b.T, exprStr(x.X), x.Op, exprStr(x.Y))
	}
	if isFloatType(a.T) && (op == token.EQL || op == token.NEQ) {
		// in specifications == on floats is identity of the value (bit pattern), not IEEE comparison
		e := Eq(a.Term(), b.Term())
		if op == token.NEQ {
			e = Not(e)
		}
		return scalar(bt, e)
	}
	ex.noOblige++
	defer func() { ex.noOblige-- }()
	return ex.binop(env.fr, env.st.clone(), op, a, b, rt, token.NoPos)
}

func exprStr(e Expr) string {
	switch x := e.(type) {
	case *EIdent:
		return x.Name
	case *EInt:
		return x.V.String()
	case *ESel:
		return exprStr(x.X) + "." + x.Sel
	case *EBinary:
		return "(" + exprStr(x.X) + x.Op + exprStr(x.Y) + ")"
	case *ECall:
		return exprStr(x.Fun) + "(...)"
	case *EIndex:
		return exprStr(x.X) + "[" + exprStr(x.I) + "]"
	case *EOld:
		return "old(" + exprStr(x.X) + ")"
	}
	return fmt.Sprintf("%T", e)
}

func (ex *Exec) evalCall(env *Env, x *ECall) Val {
	bt := types.Typ[types.Bool]
	var name string
	var recv Expr
	switch f := x.Fun.(type) {
	case *EIdent:
		name = f.Name
	case *ESel:
		name = f.Sel
		recv = f.X
	default:
		sfail("call of %T", x.Fun)
	}
	args := x.Args
	if recv != nil {
		// pkg.Func(...) : a real Go function of an imported package, evaluated purely
		if id, ok := recv.(*EIdent); ok && env.pkg != nil {
			if _, isVar := env.vars[id.Name]; !isVar {
				for _, imp := range env.pkg.Imports() {
					if imp.Name() == id.Name {
						// pkg.Type(x): conversion
						if o := imp.Scope().Lookup(name); o != nil {
							if tn, isT := o.(*types.TypeName); isT && len(args) == 1 {
								v := ex.eval(env, args[0])
								if v.Const != nil {
									return coerce(v, tn.Type())
								}
								return ex.convert(env.st.clone(), v, tn.Type())
							}
						}
						if fn := ex.ld.findFunc(imp.Path(), name); fn != nil {
							return ex.pureCall(env, fn, ex.evalArgs(env, args, fn, 0))
						}
					}
				}
			}
		}
		// method-style call of a spec function
		if sf := ex.ld.specFunc(env.pkg, name); sf != nil {
			args = append([]Expr{recv}, args...)
		} else {
			// a real Go method on the receiver's type
			rv := ex.eval(env, recv)
			if _, isIface := rv.T.Underlying().(*types.Interface); isIface {
				if fc := ex.ld.ifaceContract(rv.T, name); fc != nil && fc.Opts["functional"] == "true" {
					n, ok2 := types.Unalias(rv.T).(*types.Named)
					if ok2 {
						for k := 0; k < n.NumMethods(); k++ {
							_ = k
						}
					}
					it := rv.T.Underlying().(*types.Interface)
					for k := 0; k < it.NumMethods(); k++ {
						if it.Method(k).Name() == name {
							sig := it.Method(k).Type().(*types.Signature)
							var avs []Val
							for _, a := range args {
								avs = append(avs, ex.eval(env, a))
							}
							rs := ex.ifaceFunctional(rv.T, name, sig, rv, avs)
							if len(rs) == 1 {
								return rs[0]
							}
						}
					}
				}
				sfail("interface method %s has no functional contract", name)
			}
			if fn := ex.ld.methodOf(rv.T, name); fn != nil {
				avs := ex.evalArgs(env, args, fn, 1)
				if _, isPtr := fn.Params[0].Type().Underlying().(*types.Pointer); !isPtr {
					rv = ex.deref(env, rv)
				}
				return ex.pureCall(env, fn, append([]Val{rv}, avs...))
			}
			sfail("unknown spec function or method %s", name)
		}
	}
	switch name {
	case "len", "cap":
		v := ex.eval(env, args[0])
		it := types.Typ[types.Int]
		switch u := v.T.Underlying().(type) {
		case *types.Slice:
			if name == "cap" {
				return scalar(it, sliceCap(v))
			}
			return scalar(it, sliceLen(v))
		case *types.Array:
			return scalar(it, BVI(u.Len(), 64))
		case *types.Map:
			return scalar(it, ex.mapLen(env.st, v))
		case *types.Basic:
			return scalar(it, ex.strLen(env.st, v.Term()))
		case *types.Pointer:
			if at, ok := u.Elem().Underlying().(*types.Array); ok {
				return scalar(it, BVI(at.Len(), 64))
			}
		}
		sfail("len of %s", v.T)
	case "ite":
		c := ex.evalBool(env, args[0])
		a, b := ex.eval(env, args[1]), ex.eval(env, args[2])
		if a.Const != nil && b.Const == nil {
			a = coerce(a, b.T)
		} else if b.Const != nil && a.Const == nil {
			b = coerce(b, a.T)
		} else if a.Const != nil {
			a, b = defaultType(a), defaultType(b)
		}
		return iteVal(c, a, b)
	case "pow2":
		v := defaultType(ex.eval(env, args[0]))
		w := v.Term().S.W
		return scalar(bt, And(Not(Eq(v.Term(), BVI(0, w))), Eq(BVBin("bvand", v.Term(), BVBin("bvsub", v.Term(), BVI(1, w))), BVI(0, w))))
	case "has":
		m := ex.eval(env, args[0])
		mt, ok := m.T.Underlying().(*types.Map)
		if !ok {
			sfail("has() on %s", m.T)
		}
		k := ex.specMapKey(env, ex.eval(env, args[1]), mt.Key())
		_, in := ex.mapGet(env.st, m, k.L)
		return scalar(bt, And(in, Not(Eq(m.Term(), IntC(0)))))
	case "washas", "wasat":
		// washas(m, k) / wasat(m, k): membership / value of key k (evaluated now) in map m as it was in the old state
		m := ex.eval(env, args[0])
		mt, ok := m.T.Underlying().(*types.Map)
		if !ok {
			sfail("%s() on %s", name, m.T)
		}
		k := ex.specMapKey(env, ex.eval(env, args[1]), mt.Key())
		v, in := ex.mapGet(env.old, m, k.L)
		if name == "washas" {
			return scalar(bt, And(in, Not(Eq(m.Term(), IntC(0)))))
		}
		return v
	case "res0", "res1", "res2", "res3":
		// component of a call that returns several results
		v := ex.eval(env, args[0])
		tup, ok := v.T.(*types.Tuple)
		if !ok {
			sfail("%s: not a multi-result call", name)
		}
		_ = tup
		return structField(v, int(name[3]-'0'))
	case "mkstruct":
		// mkstruct("T", f0, f1, ...): a struct value with the given field values in declaration order
		t := ex.ld.resolveType(env.pkg, strArg(args[0]))
		stt, ok := t.Underlying().(*types.Struct)
		if !ok || stt.NumFields() != len(args)-1 {
			sfail("mkstruct: %s needs %d field values", strArg(args[0]), stt.NumFields())
		}
		r := Val{T: t}
		for i := 0; i < stt.NumFields(); i++ {
			fv := ex.eval(env, args[i+1])
			if fv.Const != nil {
				fv = coerce(fv, stt.Field(i).Type())
			}
			r.L = append(r.L, fv.L...)
		}
		return r
	case "zeroTime":
		for _, p := range ex.ld.allPkgs {
			if p.Path() == "time" {
				return scalar(p.Scope().Lookup("Time").Type(), timeZero)
			}
		}
		sfail("package time not loaded")
	case "visitedcount":
		// visitedcount(m): number of keys produced so far by the current iteration over map m
		m := ex.eval(env, args[0])
		mi := mapKeys(m.T)
		return scalar(types.Typ[types.Int], Select(env.st.get("RC:"+mi.dom, ArrS(IntS, BVS(64))), m.Term()))
	case "visited":
		// visited(m, k): key k was already produced by the current iteration over map m
		m := ex.eval(env, args[0])
		mt, ok := m.T.Underlying().(*types.Map)
		if !ok {
			sfail("visited() on %s", m.T)
		}
		k := coerce(ex.eval(env, args[1]), mt.Key())
		mi := mapKeys(m.T)
		return scalar(bt, selectN(Select(env.st.get("R:"+mi.dom, mi.domSort()), m.Term()), k.L))
	case "fresh":
		v := ex.eval(env, args[0])
		return scalar(bt, IntLt(env.old.alloc(), v.L[0]))
	case "allocated":
		v := ex.eval(env, args[0])
		return scalar(bt, And(Not(Eq(IntC(0), v.L[0])), IntLe(v.L[0], env.st.alloc())))
	case "closed":
		v := ex.eval(env, args[0])
		return scalar(bt, Select(env.st.get("C:closed", ArrS(IntS, BoolS)), v.Term()))
	case "lockstate":
		v := ex.eval(env, args[0])
		return scalar(MathInt, ex.deref(env, v).L[0])
	case "isnil":
		v := ex.eval(env, args[0])
		return scalar(bt, Eq(v.L[0], IntC(0)))
	case "mathint":
		v := ex.eval(env, args[0])
		if c, ok := v.Const.(*big.Int); ok {
			return scalar(MathInt, IntC(c.Int64()))
		}
		_, signed, ok := isIntType(v.T)
		if !ok {
			sfail("mathint() of %s", v.T)
		}
		return scalar(MathInt, bv2int(v.Term(), signed))
	case "elems":
		// contents of a slice's backing array as a total map from absolute index (offset(x)+i) to element
		v := ex.eval(env, args[0])
		st2, ok := v.T.Underlying().(*types.Slice)
		if !ok {
			sfail("elems() of %s", v.T)
		}
		el := layoutOf(st2.Elem())
		r := Val{T: &SpecMap{K: types.Typ[types.Int], V: st2.Elem()}}
		for j := range el.Leaves {
			inner, _, _ := env.st.memInner(st2.Elem(), j, sliceArr(v))
			r.L = append(r.L, inner)
		}
		return r
	case "offset":
		v := ex.eval(env, args[0])
		return scalar(types.Typ[types.Int], sliceOff(v))
	case "calls":
		return ex.evalCalls(env, args)
	case "callarg":
		return ex.evalCallArg(env, args)
	case "callres":
		return ex.evalCallRes(env, args)
	case "typeis":
		// typeis(v, "T"): the dynamic type of interface value v is T
		v := ex.eval(env, args[0])
		t := ex.ld.resolveType(env.pkg, strArg(args[1]))
		return scalar(bt, Eq(v.L[0], IntC(int64(ex.ld.typeTag(t)))))
	case "as":
		// as(v, "T"): the value stored in interface v, read as a T (meaningful when typeis(v, "T"))
		v := ex.eval(env, args[0])
		t := ex.ld.resolveType(env.pkg, strArg(args[1]))
		return ex.unbox(env.st, v, t)
	case "deref":
		v := ex.eval(env, args[0])
		return ex.deref(env, v)
	case "sameblock":
		// sameblock(a, b): the two slices share their backing array
		a, b := ex.eval(env, args[0]), ex.eval(env, args[1])
		return scalar(bt, And(Eq(sliceArr(a), sliceArr(b)), Not(Eq(sliceArr(a), IntC(0)))))
	case "isclosure":
		// isclosure(v, "Fn$1"): v is the closure created from that function literal in this execution
		v := ex.eval(env, args[0])
		name := strArg(args[1])
		ref := v.L[len(v.L)-1]
		var alts []*Term
		for r, fn := range ex.closureFn {
			if fn.Name() == name && r.Op != "intconst" {
				alts = append(alts, Eq(ref, r))
			}
		}
		return scalar(bt, Or(alts...))
	case "binding":
		// binding("Fn$1", "x"): the value captured for free variable x by the closure created from Fn$1
		fname, vname := strArg(args[0]), strArg(args[1])
		for r, fn := range ex.closureFn {
			if fn.Name() != fname || r.Op == "intconst" {
				continue
			}
			for i, fv := range fn.FreeVars {
				if fv.Name() == vname {
					b := ex.closures[r][i]
					if _, isPtr := fv.Type().Underlying().(*types.Pointer); isPtr {
						// captured by reference: the current content of the cell
						return env.st.load(ex.locOf(b))
					}
					return b
				}
			}
		}
		sfail("binding: no closure %s with free variable %s", fname, vname)
	case "atcall", "aftercall":
		// atcall("key", e): e evaluated in the state just before the (last) call; aftercall: just after it returned
		recs := ex.recsFor(strArg(args[0]))
		if len(recs) == 0 {
			sfail("%s: no call %s recorded", name, strArg(args[0]))
		}
		var out Val
		for k := len(recs) - 1; k >= 0; k-- {
			n := *env
			n.st = recs[k].Pre
			if name == "aftercall" {
				if recs[k].Post == nil {
					sfail("aftercall: no post state for %s", recs[k].Key)
				}
				n.st = recs[k].Post
			}
			v := ex.eval(&n, args[1])
			if v.Const != nil {
				v = defaultType(v)
			}
			if k == len(recs)-1 {
				out = v
			} else {
				out = iteVal(recs[k].Guard, v, out)
			}
		}
		return out
	case "spawned":
		n := 0
		for range ex.spawned {
			n++
		}
		return ex.countRecs(env, ex.spawned, "")
	}
	// conversion to a named/basic type
	if recv == nil && ex.ld.isTypeName(env.pkg, name) && len(args) == 1 {
		t := ex.ld.resolveType(env.pkg, name)
		v := ex.eval(env, args[0])
		if v.Const != nil {
			return coerce(v, t)
		}
		if _, ok := t.Underlying().(*SpecInt); ok {
			return ex.evalCall(env, &ECall{Fun: &EIdent{"mathint"}, Args: args})
		}
		return ex.convert(env.st.clone(), v, t)
	}
	if sf := ex.ld.specFunc(env.pkg, name); sf != nil {
		return ex.callSpec(env, sf, args)
	}
	// a real (pure) Go function of the package: inline it on a scratch state
	if env.pkg != nil {
		if fn := ex.ld.findFunc(env.pkg.Path(), name); fn != nil {
			return ex.pureCall(env, fn, ex.evalArgs(env, args, fn, 0))
		}
	}
	sfail("unknown function %s in spec", name)
	return Val{}
}

func (ex *Exec) evalArgs(env *Env, args []Expr, fn *ssa.Function, skip int) []Val {
	var avs []Val
	for i, a := range args {
		v := ex.eval(env, a)
		if v.Const != nil {
			v = coerce(v, fn.Params[i+skip].Type())
		}
		avs = append(avs, v)
	}
	return avs
}

// pureCall evaluates a real Go function inside a specification, on a scratch copy of the state.
// Obligations it would generate are dropped; facts it assumes (trusted specs) are kept.
func (ex *Exec) pureCall(env *Env, fn *ssa.Function, args []Val) Val {
	nObs := len(ex.obs)
	st := env.st.clone()
	st.pc = nil
	top := &Frame{fn: ex.top, regs: map[ssa.Value]Val{}, depth: 1, label: "spec/"}
	ex.pure++
	rs := ex.callStatic(top, st, fn, args, nil, token.NoPos)
	ex.pure--
	ex.obs = ex.obs[:nObs]
	if len(rs) != 1 {
		// several results: a tuple (use res0(...), res1(...) to select)
		return packResults(fn.Signature.Results(), rs)
	}
	return rs[0]
}

func (ex *Exec) callSpec(env *Env, sf *SpecFunc, args []Expr) Val {
	if len(args) != len(sf.Params) {
		sfail("spec function %s: %d args for %d params", sf.Name, len(args), len(sf.Params))
	}
	if env.depth > 40 {
		sfail("spec function recursion too deep in %s", sf.Name)
	}
	pkg := ex.ld.pkgByPath(sf.Pkg)
	vars := map[string]Val{}
	for i, p := range sf.Params {
		t := ex.ld.resolveType(pkg, p.T)
		v := ex.eval(env, args[i])
		if v.Const != nil {
			v = coerce(v, t)
		}
		if len(v.L) != len(layoutOf(t).Leaves) && v.Loc == nil {
			sfail("argument %d of %s: %s given for %s", i, sf.Name, v.T, t)
		}
		if v.Loc == nil {
			v.T = t
		}
		vars[p.Name] = v
	}
	n := &Env{ex: ex, st: env.st, old: env.old, vars: vars, pkg: pkg, depth: env.depth + 1, recDepth: env.recDepth}
	rt := ex.ld.resolveType(pkg, sf.Result)
	if sf.Rec {
		// recursive spec function: uninterpreted application + its defining equation at this application (fuel 1)
		rl := layoutOf(rt)
		if len(rl.Leaves) != 1 {
			sfail("recursive spec function %s must return a scalar", sf.Name)
		}
		var leaves []*Term
		closed := true
		for _, p := range sf.Params {
			v := vars[p.Name]
			if v.Loc != nil {
				sfail("recursive spec function %s: interior pointer argument", sf.Name)
			}
			for _, l := range v.L {
				leaves = append(leaves, l)
				if len(l.fb) > 0 {
					closed = false
				}
			}
		}
		if ex.recDry > 0 {
			return scalar(rt, FreshVar("recdry", rl.Leaves[0].S))
		}
		if !sf.KeysDone {
			// dry evaluation: which state components does the body read?
			ex.recDry++
			nA := len(ex.assumptions)
			dst := env.st.clone()
			dst.track = map[string]*Sort{}
			dn := *n
			dn.st, dn.old = dst, dst
			ex.eval(&dn, sf.Body)
			ex.recDry--
			ex.assumptions = ex.assumptions[:nA]
			for k := range dst.track {
				sf.Keys = append(sf.Keys, k)
			}
			sort.Strings(sf.Keys)
			for _, k := range sf.Keys {
				sf.KeySorts = append(sf.KeySorts, dst.track[k])
			}
			sf.KeysDone = true
		}
		for i, k := range sf.Keys {
			leaves = append(leaves, env.st.get(k, sf.KeySorts[i]))
		}
		app := App("rec_"+sf.Name, rl.Leaves[0].S, leaves...)
		if env.recDepth < 1 && !ex.recDone[app] {
			if ex.recDone == nil {
				ex.recDone = map[*Term]bool{}
			}
			ex.recDone[app] = true
			n.recDepth = env.recDepth + 1
			n.old = n.st
			b := ex.eval(n, sf.Body)
			if b.Const != nil {
				b = coerce(b, rt)
			}
			// an application under a binder gets the equation quantified over the bound variables it mentions
			_ = closed
			ex.assumptions = append(ex.assumptions, closeOver(Eq(app, b.Term())))
		}
		return scalar(rt, app)
	}
	r := ex.eval(n, sf.Body)
	if r.Const != nil {
		r = coerce(r, rt)
	}
	return r
}

// ---- call-log queries

func (ex *Exec) countRecs(env *Env, recs []*CallRec, key string) Val {
	var sum *Term = BVI(0, 64)
	for _, r := range recs {
		if key != "" && r.Key != key {
			continue
		}
		sum = BVBin("bvadd", sum, Ite(And(r.Guard, env.st.PC()), BVI(1, 64), BVI(0, 64)))
	}
	return scalar(types.Typ[types.Int], sum)
}

func (ex *Exec) recsFor(key string) []*CallRec {
	var out []*CallRec
	switch {
	case key == "go" || strings.HasPrefix(key, "go "):
		for _, r := range ex.spawned {
			if key == "go" || r.Key == key {
				out = append(out, r)
			}
		}
	case key == "send":
		out = ex.sends
	default:
		for i, r := range ex.callLog {
			if r.Key == key && i >= ex.logFrom {
				out = append(out, r)
			}
		}
	}
	return out
}

func strArg(e Expr) string {
	if s, ok := e.(*EStr); ok {
		return s.S
	}
	sfail("string literal expected")
	return ""
}

// calls("key"): number of calls on the current path.
func (ex *Exec) evalCalls(env *Env, args []Expr) Val {
	key := strArg(args[0])
	recs := ex.recsFor(key)
	if len(recs) == 0 {
		// a clause about a call that is never recorded is vacuous or an absence claim: make it visible
		n := fmt.Sprintf("calls(%q): no such call is recorded in %s (absence claim, or a misspelt key)", key, fnKey(ex.top))
		dup := false
		for _, x := range ex.notes {
			if x == n {
				dup = true
			}
		}
		if !dup {
			ex.notes = append(ex.notes, n)
		}
	}
	return ex.countRecs(env, recs, "")
}

func (ex *Exec) pickCall(env *Env, args []Expr) (*CallRec, []*CallRec) {
	key := strArg(args[0])
	recs := ex.recsFor(key)
	return nil, recs
}

// callarg("key", argIndex): argument of the unique call site (if several records exist, merged by guard).
func (ex *Exec) evalCallArg(env *Env, args []Expr) Val {
	_, recs := ex.pickCall(env, args)
	idx := ex.eval(env, args[1])
	i := int(idx.Const.(*big.Int).Int64())
	if len(recs) == 0 {
		sfail("callarg: no call %s recorded", strArg(args[0]))
	}
	v := recs[len(recs)-1].Args[i]
	for k := len(recs) - 2; k >= 0; k-- {
		v = iteVal(recs[k].Guard, recs[k].Args[i], v)
	}
	return v
}

func (ex *Exec) evalCallRes(env *Env, args []Expr) Val {
	_, recs := ex.pickCall(env, args)
	idx := ex.eval(env, args[1])
	i := int(idx.Const.(*big.Int).Int64())
	if len(recs) == 0 {
		sfail("callres: no call %s recorded", strArg(args[0]))
	}
	v := recs[len(recs)-1].Results[i]
	for k := len(recs) - 2; k >= 0; k-- {
		v = iteVal(recs[k].Guard, recs[k].Results[i], v)
	}
	return v
}

func bv2int(t *Term, signed bool) *Term {
	n := mk("bv2nat", IntS, "", nil, t)
	if !signed {
		return n
	}
	w := t.S.W
	p := new(big.Int).Lsh(big.NewInt(1), uint(w))
	msb := Eq(Extract(t, w-1, w-1), BVI(1, 1))
	return Ite(msb, IntOp("-", n, mk("intconst", IntS, p.String(), nil)), n)
}
