package main

// Counterexample-guided selection of hypotheses ("lazy hypotheses").
//
// Large functions produce obligations with hundreds of hypotheses and (after instantiation) thousands of
// instances, of which a proof uses a handful; the solvers drown in the rest. lazyProve starts from the negated
// goal alone; whenever the current selection S is satisfiable, the candidate hypotheses that are false in the
// solver's model are added to S, and the check is repeated. S only ever contains hypotheses of the obligation
// (or instances of its quantified hypotheses), so `unsat` of S and the negated goal proves the obligation.
// If the model falsifies no remaining candidate the loop gives up (undecided: other stages take over).

import (
	"fmt"
	"os"
	"strings"
	"time"
)

// scriptNamed prints the query with every candidate defined as a Boolean constant gv_i and asks for their values.
func (q *Query) scriptNamed(cands []*Term) string {
	s := q.Script(cands)
	// Script prints "(check-sat)\n(get-value (t1 t2 ...))"; re-print with names to keep the answer small
	i := strings.LastIndex(s, "(check-sat)\n(get-value (")
	if i < 0 {
		return s
	}
	head := s[:i]
	tail := s[i+len("(check-sat)\n(get-value ("):]
	tail = strings.TrimSuffix(strings.TrimSpace(tail), "))")
	// split the printed terms: top-level s-expressions or atoms separated by spaces
	var parts []string
	depth, st := 0, -1
	inBar := false
	for k := 0; k < len(tail); k++ {
		c := tail[k]
		if inBar {
			if c == '|' {
				inBar = false
				if depth == 0 {
					parts = append(parts, tail[st:k+1])
					st = -1
				}
			}
			continue
		}
		switch c {
		case '|':
			inBar = true
			if depth == 0 && st < 0 {
				st = k
			}
		case '(':
			if depth == 0 && st < 0 {
				st = k
			}
			depth++
		case ')':
			depth--
			if depth == 0 {
				parts = append(parts, tail[st:k+1])
				st = -1
			}
		case ' ', '\n':
			if depth == 0 && st >= 0 {
				parts = append(parts, tail[st:k])
				st = -1
			}
		default:
			if depth == 0 && st < 0 {
				st = k
			}
		}
	}
	if st >= 0 {
		parts = append(parts, tail[st:])
	}
	if len(parts) != len(cands) {
		return s
	}
	var sb strings.Builder
	sb.WriteString(head)
	for k, p := range parts {
		fmt.Fprintf(&sb, "(define-fun gv_%d () Bool %s)\n", k, p)
	}
	sb.WriteString("(check-sat)\n(get-value (")
	for k := range parts {
		fmt.Fprintf(&sb, "gv_%d ", k)
	}
	sb.WriteString("))\n")
	return sb.String()
}

// lazyProve returns (result, iterations). result.Status is "unsat" when proved, otherwise "unknown".
func lazyProve(goal *Term, cands []*Term, extra []string, fpMode string, dir, name string, callTimeoutS, maxIter int, keep bool, deadline time.Time) (SolveResult, int) {
	longTimeoutS := lazyLongTimeout
	var sel []*Term
	inSel := map[*Term]bool{}
	var rest []*Term
	seen := map[*Term]bool{}
	for _, c := range cands {
		if !seen[c] && c.Op != "true" {
			seen[c] = true
			rest = append(rest, c)
		}
	}
	debug := os.Getenv("GOVC_DEBUG") != ""
	for it := 0; it < maxIter; it++ {
		if time.Now().After(deadline) {
			return SolveResult{Status: "unknown"}, it
		}
		q := &Query{Hyps: sel, Goal: goal, Extra: extra, FPMode: fpMode}
		f := writeQuery(dir, fmt.Sprintf("%s.lazy%d", name, it), q.scriptNamed(rest))
		r := RunPortfolio(f, callTimeoutS, "")
		if !keep {
			os.Remove(f)
		}
		if r.Status == "unsat" {
			r.Solver += fmt.Sprintf("+lazy(%d/%d hyps, %d rounds)", len(sel), len(sel)+len(rest), it+1)
			return r, it + 1
		}
		if r.Status != "sat" && r.Status != "unsat" && longTimeoutS > callTimeoutS {
			// the selection so far is probably sufficient but slow: one long attempt before giving up
			f2 := writeQuery(dir, fmt.Sprintf("%s.lazy%d_long", name, it), q.Script(nil))
			r2 := RunPortfolio(f2, longTimeoutS, "")
			if !keep {
				os.Remove(f2)
			}
			if r2.Status == "unsat" {
				r2.Solver += fmt.Sprintf("+lazy(%d/%d hyps, %d rounds, long)", len(sel), len(sel)+len(rest), it+1)
				return r2, it + 1
			}
		}
		if r.Status != "sat" {
			if debug {
				fmt.Fprintf(os.Stderr, "lazy %s: iteration %d %s with %d selected\n", name, it, r.Status, len(sel))
			}
			return SolveResult{Status: "unknown"}, it + 1
		}
		out := r.Output
		k := strings.Index(out, "sat")
		es := parseSexps(out[k+3:])
		if len(es) == 0 || es[0].list == nil {
			return SolveResult{Status: "unknown"}, it + 1
		}
		var viol, keepRest []*Term
		vals := map[int]string{}
		for _, pair := range es[0].list {
			if len(pair.list) == 2 && strings.HasPrefix(pair.list[0].atom, "gv_") {
				var idx int
				fmt.Sscanf(pair.list[0].atom, "gv_%d", &idx)
				vals[idx] = pair.list[1].atom
			}
		}
		for i, c := range rest {
			if vals[i] == "false" && len(viol) < 40 {
				// at most 40 per iteration (candidates are ordered: hypotheses first, then instances by matching round)
				viol = append(viol, c)
			} else {
				keepRest = append(keepRest, c)
			}
		}
		if debug {
			fmt.Fprintf(os.Stderr, "lazy %s: iteration %d sat (%s %.2fs), %d selected, %d violated of %d\n", name, it, r.Solver, r.Secs, len(sel), len(viol), len(rest))
		}
		if len(viol) == 0 {
			return SolveResult{Status: "unknown"}, it + 1
		}
		for _, v := range viol {
			if !inSel[v] {
				inSel[v] = true
				sel = append(sel, v)
			}
		}
		rest = keepRest
	}
	return SolveResult{Status: "unknown"}, maxIter
}

// LazyCandidates: the quantifier-free hypotheses and the instances (directed matching, all rounds) of the obligation,
// with the Skolemized goal; nil when the goal keeps a quantifier.
func (q *Query) LazyCandidates(rounds int) (*Term, []*Term) {
	stages := q.DirectedStages(rounds)
	if len(stages) == 0 {
		// no quantified hypotheses (or quantified goal): plain hypotheses when quantifier-free
		if q.Goal == nil || hasQuantifier(q.Goal) {
			var sks []*Term
			if q.Goal == nil {
				return nil, nil
			}
			g := skolemize(q.Goal, &sks)
			if hasQuantifier(g) {
				return nil, nil
			}
			for _, h := range q.Hyps {
				if hasQuantifier(h) {
					return nil, nil
				}
			}
			return g, q.Hyps
		}
		for _, h := range q.Hyps {
			if hasQuantifier(h) {
				return nil, nil
			}
		}
		return q.Goal, q.Hyps
	}
	last := stages[len(stages)-1]
	return last.Goal, last.Hyps
}

// lazyLongTimeout: time for the single long attempt after a short call of the selection loop timed out (set by solveAll).
var lazyLongTimeout = 0

// pickSplit: the condition of a conditional term in the goal that occurs most often (closed, not constant).
func pickSplit(goal *Term, tried map[*Term]bool) *Term {
	count := map[*Term]int{}
	seen := map[*Term]bool{}
	var rec func(t *Term)
	rec = func(t *Term) {
		if seen[t] {
			return
		}
		seen[t] = true
		if t.Op == "ite" && t.S.K != KBool {
			c := t.Args[0]
			if len(c.fb) == 0 && c.Op != "true" && c.Op != "false" {
				if c.Op == "not" {
					c = c.Args[0]
				}
				count[c]++
			}
		}
		for _, a := range t.Args {
			rec(a)
		}
	}
	rec(goal)
	var best *Term
	for c, n := range count {
		if tried[c] {
			continue
		}
		if best == nil || n > count[best] || (n == count[best] && c.id < best.id) {
			best = c
		}
	}
	return best
}

// lazySplit: lazyProve, and when that is undecided, a case analysis on a condition of the goal's conditional
// terms (both cases must be proved; in each case the condition is replaced by its value everywhere).
func lazySplit(goal *Term, cands []*Term, extra []string, fpMode string, dir, name string, callTimeoutS, maxIter int, keep bool, depth int, deadline time.Time, lazyHints []*Term) SolveResult {
	// a hinted condition that the goal mentions is split on right away
	var c *Term
	if depth > 0 {
		for _, h := range lazyHints {
			if h.Op != "true" && h.Op != "false" && occursIn(h, goal) {
				c = h
				break
			}
		}
	}
	var r SolveResult
	if c == nil {
		r, _ = lazyProve(goal, cands, extra, fpMode, dir, name, callTimeoutS, maxIter, keep, deadline)
		if r.Status == "unsat" || depth <= 0 || time.Now().After(deadline) {
			return r
		}
		c = pickSplit(goal, map[*Term]bool{})
		if c == nil {
			return r
		}
	}
	desc := ""
	for k, val := range []*Term{True, False} {
		m := map[*Term]*Term{c: val}
		lit := c
		if k == 1 {
			lit = Not(c)
		}
		hy := []*Term{lit}
		for _, h := range cands {
			hy = append(hy, Subst(h, m))
		}
		nq := (&Query{Hyps: hy, Goal: Subst(goal, m)}).Normalized()
		if nq.Goal.Op == "true" {
			continue
		}
		r2 := lazySplit(nq.Goal, nq.Hyps, extra, fpMode, dir, fmt.Sprintf("%s.case%d", name, k), callTimeoutS, maxIter, keep, depth-1, deadline, lazyHints)
		if r2.Status != "unsat" {
			return SolveResult{Status: "unknown"}
		}
		desc += " " + r2.Solver
	}
	return SolveResult{Status: "unsat", Solver: "split[" + strings.TrimSpace(desc) + "]"}
}
