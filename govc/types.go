package main

// Go types -> flat leaf layouts; symbolic values.

import (
	"fmt"
	"go/types"
	"strings"
)

type LeafKind int

const (
	LScalar LeafKind = iota // bool / int / float
	LRef                    // pointer, map, chan, func: Int reference, 0 = nil
	LStr                    // string id (Int)
	LSliceArr               // Int array id
	LSliceOff
	LSliceLen
	LSliceCap
	LIfaceTag // Int dynamic type tag, 0 = nil interface
	LIfaceVal // Int payload ref
	LGhost
)

type Leaf struct {
	Path string
	S    *Sort
	Kind LeafKind
	T    types.Type // Go type of the scalar this leaf belongs to
	Lift int        // number of array layers
}

type FieldInfo struct {
	Name string
	Off  int
	N    int
	T    types.Type
}

type Layout struct {
	T      types.Type
	Leaves []Leaf
	Fields []FieldInfo // for structs (incl. ghost fields appended)
	Elem   types.Type  // arrays
	Len    int64
}

var layoutCache = map[string]*Layout{}

// ghost fields registered by contracts: type key -> list
type GhostField struct {
	Name string
	T    types.Type
}

var ghostFields = map[string][]GhostField{}

// SpecMap is a spec-only total map type [K]V.
type SpecMap struct{ K, V types.Type }

func (m *SpecMap) Underlying() types.Type { return m }
func (m *SpecMap) String() string         { return "[" + m.K.String() + "]" + m.V.String() }

// SpecInt is the mathematical integer type usable in specs only.
type SpecInt struct{}

func (m *SpecInt) Underlying() types.Type { return m }
func (m *SpecInt) String() string         { return "mathint" }

var MathInt = &SpecInt{}

func typeKey(t types.Type) string {
	return types.TypeString(t, nil)
}

func isNamed(t types.Type, pkg, name string) bool {
	n, ok := types.Unalias(t).(*types.Named)
	if !ok {
		return false
	}
	o := n.Obj()
	return o.Name() == name && o.Pkg() != nil && o.Pkg().Path() == pkg
}

func intWidth(b *types.Basic) (int, bool) {
	switch b.Kind() {
	case types.Int8:
		return 8, true
	case types.Uint8:
		return 8, false
	case types.Int16:
		return 16, true
	case types.Uint16:
		return 16, false
	case types.Int32:
		return 32, true
	case types.Uint32:
		return 32, false
	case types.Int64, types.Int, types.UntypedInt, types.UntypedRune:
		return 64, true
	case types.Uint64, types.Uint, types.Uintptr:
		return 64, false
	}
	return 0, false
}

func isIntType(t types.Type) (w int, signed bool, ok bool) {
	b, isb := t.Underlying().(*types.Basic)
	if !isb || b.Info()&types.IsInteger == 0 {
		return 0, false, false
	}
	w, signed = intWidth(b)
	return w, signed, w != 0
}

func isFloatType(t types.Type) bool {
	b, isb := t.Underlying().(*types.Basic)
	return isb && b.Info()&types.IsFloat != 0
}

func isBoolType(t types.Type) bool {
	b, isb := t.Underlying().(*types.Basic)
	return isb && b.Info()&types.IsBoolean != 0
}

func isStringType(t types.Type) bool {
	b, isb := t.Underlying().(*types.Basic)
	return isb && b.Info()&types.IsString != 0
}

func layoutOf(t types.Type) *Layout {
	t = types.Unalias(t)
	k := typeKey(t)
	if l, ok := layoutCache[k]; ok {
		return l
	}
	l := &Layout{T: t}
	layoutCache[k] = l // (recursion through pointers never re-enters: pointers are leaves)
	add := func(path string, s *Sort, kind LeafKind, gt types.Type) {
		l.Leaves = append(l.Leaves, Leaf{Path: path, S: s, Kind: kind, T: gt})
	}
	// special named types
	switch {
	case isNamed(t, "time", "Time"):
		add("", BVS(64), LScalar, t)
		return l
	case isNamed(t, "sync", "Mutex"), isNamed(t, "sync", "RWMutex"):
		add(".lock", IntS, LGhost, t)
		return l
	case isNamed(t, "sync", "WaitGroup"):
		add(".wg", IntS, LGhost, t)
		return l
	case isNamed(t, "sync", "Once"):
		add(".done", BoolS, LGhost, t)
		return l
	case isNamed(t, "sync", "Map"):
		add(".m", IntS, LRef, t)
		return l
	}
	switch u := t.Underlying().(type) {
	case *types.Basic:
		switch {
		case u.Info()&types.IsBoolean != 0:
			add("", BoolS, LScalar, t)
		case u.Info()&types.IsInteger != 0:
			w, _ := intWidth(u)
			add("", BVS(w), LScalar, t)
		case u.Info()&types.IsFloat != 0:
			if u.Kind() == types.Float32 {
				add("", F32S, LScalar, t)
			} else {
				add("", F64S, LScalar, t)
			}
		case u.Info()&types.IsString != 0:
			add("", IntS, LStr, t)
		case u.Kind() == types.UnsafePointer:
			add("", IntS, LRef, t)
		case u.Kind() == types.UntypedNil:
			add("", IntS, LRef, t)
		case u.Kind() == types.Invalid:
			// unused component of a range/next tuple
		default:
			panic(unsupported("basic type " + u.String()))
		}
	case *types.Pointer, *types.Map, *types.Chan, *types.Signature:
		add("", IntS, LRef, t)
	case *types.Slice:
		add(".arr", IntS, LSliceArr, t)
		add(".off", BVS(64), LSliceOff, t)
		add(".len", BVS(64), LSliceLen, t)
		add(".cap", BVS(64), LSliceCap, t)
	case *types.Interface:
		add(".t", IntS, LIfaceTag, t)
		add(".v", IntS, LIfaceVal, t)
	case *types.Struct:
		for i := 0; i < u.NumFields(); i++ {
			f := u.Field(i)
			fl := layoutOf(f.Type())
			l.Fields = append(l.Fields, FieldInfo{Name: f.Name(), Off: len(l.Leaves), N: len(fl.Leaves), T: f.Type()})
			for _, lf := range fl.Leaves {
				lf.Path = "." + f.Name() + lf.Path
				l.Leaves = append(l.Leaves, lf)
			}
		}
		for _, g := range ghostFields[k] {
			fl := layoutOf(g.T)
			l.Fields = append(l.Fields, FieldInfo{Name: g.Name, Off: len(l.Leaves), N: len(fl.Leaves), T: g.T})
			for _, lf := range fl.Leaves {
				lf.Path = ".ghost_" + g.Name + lf.Path
				l.Leaves = append(l.Leaves, lf)
			}
		}
	case *types.Array:
		el := layoutOf(u.Elem())
		l.Elem = u.Elem()
		l.Len = u.Len()
		for _, lf := range el.Leaves {
			lf.Path = "[]" + lf.Path
			lf.S = ArrS(BVS(64), lf.S)
			lf.Lift++
			l.Leaves = append(l.Leaves, lf)
		}
	case *SpecMap:
		ks := layoutOf(u.K)
		vs := layoutOf(u.V)
		if len(ks.Leaves) != 1 {
			panic(unsupported("spec map key " + u.K.String()))
		}
		for _, lf := range vs.Leaves {
			lf.Path = "[k]" + lf.Path
			lf.S = ArrS(ks.Leaves[0].S, lf.S)
			lf.Lift++
			l.Leaves = append(l.Leaves, lf)
		}
	case *SpecInt:
		add("", IntS, LScalar, t)
	case *types.Tuple:
		for i := 0; i < u.Len(); i++ {
			fl := layoutOf(u.At(i).Type())
			l.Fields = append(l.Fields, FieldInfo{Name: fmt.Sprint(i), Off: len(l.Leaves), N: len(fl.Leaves), T: u.At(i).Type()})
			l.Leaves = append(l.Leaves, fl.Leaves...)
		}
	default:
		panic(unsupported("type " + t.String()))
	}
	return l
}

type Unsupported struct{ Msg string }

func (u *Unsupported) Error() string { return "UNSUPPORTED: " + u.Msg }
func unsupported(msg string) *Unsupported {
	return &Unsupported{Msg: msg}
}

// Loc is a symbolic address.
type Loc struct {
	Mem   bool       // false: heap object root; true: slice backing-array element
	RootT types.Type // heap: object type; mem: element type
	Ref   *Term      // object ref / array id
	EIdx  *Term      // mem: absolute element index (BV64)
	Off   int        // leaf offset within the root layout
	T     types.Type // pointee type
	Idx   []*Term    // pending array indices for lifted leaves (outermost first)
	// dual addressing for pointers that may point either to a heap object or to a slice element:
	// when Cond holds the location is Alt, otherwise this one
	Alt  *Loc
	Cond *Term
}

// Val is a symbolic value: flat leaves following layoutOf(T).
type Val struct {
	T   types.Type
	L   []*Term
	Loc *Loc // non-nil for interior pointers (then L is nil)
	// untyped constant (spec evaluation only)
	Const interface{}
}

func scalar(t types.Type, x *Term) Val { return Val{T: t, L: []*Term{x}} }

func (v Val) Term() *Term {
	if len(v.L) != 1 {
		panic(fmt.Sprintf("Val.Term: %d leaves for %s", len(v.L), v.T))
	}
	return v.L[0]
}

func zeroLeaf(lf Leaf) *Term {
	s := lf.S
	if lf.T != nil && isNamed(lf.T, "time", "Time") {
		// the zero time.Time is the distinguished minimum instant (see specs.go)
		z := timeZero
		for s.K == KArray {
			s = s.B
		}
		var wrap func(s *Sort) *Term
		wrap = func(s *Sort) *Term {
			if s.K == KArray {
				return ConstArr(s, wrap(s.B))
			}
			return z
		}
		return wrap(lf.S)
	}
	return zeroOfSort(s)
}

func zeroOfSort(s *Sort) *Term {
	switch s.K {
	case KBool:
		return False
	case KBV:
		return BVI(0, s.W)
	case KInt:
		return IntC(0)
	case KF64, KF32:
		return FConst(0, s)
	case KArray:
		return ConstArr(s, zeroOfSort(s.B))
	}
	panic("zeroOfSort " + s.key)
}

func FConst(bits uint64, s *Sort) *Term {
	return mk("fconst", s, fmt.Sprintf("%016x", bits), nil)
}

func zeroVal(t types.Type) Val {
	l := layoutOf(t)
	v := Val{T: t, L: make([]*Term, len(l.Leaves))}
	for i, lf := range l.Leaves {
		v.L[i] = zeroLeaf(lf)
	}
	return v
}

func freshVal(t types.Type, prefix string) Val {
	l := layoutOf(t)
	v := Val{T: t, L: make([]*Term, len(l.Leaves))}
	for i, lf := range l.Leaves {
		v.L[i] = FreshVar(prefix+lf.Path, lf.S)
	}
	return v
}

func namedVal(t types.Type, name string) Val {
	l := layoutOf(t)
	v := Val{T: t, L: make([]*Term, len(l.Leaves))}
	for i, lf := range l.Leaves {
		v.L[i] = Var(name+lf.Path, lf.S)
	}
	return v
}

func iteVal(c *Term, a, b Val) Val {
	if (a.Loc != nil || b.Loc != nil) && len(a.L) == 1 && len(b.L) == 1 {
		// encoded element pointers are ordinary references
		return Val{T: a.T, L: []*Term{Ite(c, a.L[0], b.L[0])}}
	}
	if a.Loc != nil || b.Loc != nil {
		if a.Loc != nil && b.Loc != nil {
			if l := iteLoc(c, a.Loc, b.Loc); l != nil {
				return Val{T: a.T, Loc: l}
			}
		}
		panic(unsupported("merge of interior pointers"))
	}
	if len(a.L) != len(b.L) {
		panic(fmt.Sprintf("iteVal: leaf mismatch %s (%d) vs %s (%d)", a.T, len(a.L), b.T, len(b.L)))
	}
	r := Val{T: a.T, L: make([]*Term, len(a.L))}
	for i := range a.L {
		r.L[i] = Ite(c, a.L[i], b.L[i])
	}
	return r
}

func iteLoc(c *Term, a, b *Loc) *Loc {
	if a.Mem != b.Mem || typeKey(a.RootT) != typeKey(b.RootT) || a.Off != b.Off || len(a.Idx) != len(b.Idx) || typeKey(a.T) != typeKey(b.T) {
		return nil
	}
	r := *a
	r.Ref = Ite(c, a.Ref, b.Ref)
	if a.Mem {
		r.EIdx = Ite(c, a.EIdx, b.EIdx)
	}
	r.Idx = nil
	for i := range a.Idx {
		r.Idx = append(r.Idx, Ite(c, a.Idx[i], b.Idx[i]))
	}
	return &r
}

func eqVal(a, b Val) *Term {
	if len(a.L) != len(b.L) {
		panic(fmt.Sprintf("eqVal: leaf mismatch %s vs %s", a.T, b.T))
	}
	var cs []*Term
	for i := range a.L {
		cs = append(cs, Eq(a.L[i], b.L[i]))
	}
	return And(cs...)
}

func structField(v Val, i int) Val {
	l := layoutOf(v.T)
	f := l.Fields[i]
	return Val{T: f.T, L: v.L[f.Off : f.Off+f.N]}
}

func fieldByName(v Val, name string) (Val, bool) {
	l := layoutOf(v.T)
	for _, f := range l.Fields {
		if f.Name == name {
			return Val{T: f.T, L: v.L[f.Off : f.Off+f.N]}, true
		}
	}
	// promoted through embedded struct values
	if st, ok := v.T.Underlying().(*types.Struct); ok {
		for i := 0; i < st.NumFields(); i++ {
			if !st.Field(i).Embedded() {
				continue
			}
			if _, isStruct := st.Field(i).Type().Underlying().(*types.Struct); !isStruct {
				continue
			}
			f := l.Fields[i]
			if r, ok := fieldByName(Val{T: f.T, L: v.L[f.Off : f.Off+f.N]}, name); ok {
				return r, true
			}
		}
	}
	return Val{}, false
}

func arrayIndex(v Val, idx *Term) Val {
	l := layoutOf(v.T)
	r := Val{T: l.Elem, L: make([]*Term, len(v.L))}
	for i := range v.L {
		r.L[i] = Select(v.L[i], idx)
	}
	return r
}

func arrayStore(v Val, idx *Term, e Val) Val {
	r := Val{T: v.T, L: make([]*Term, len(v.L))}
	for i := range v.L {
		r.L[i] = Store(v.L[i], idx, e.L[i])
	}
	return r
}

// slice accessors
func sliceArr(v Val) *Term { return v.L[0] }
func sliceOff(v Val) *Term { return v.L[1] }
func sliceLen(v Val) *Term { return v.L[2] }
func sliceCap(v Val) *Term { return v.L[3] }

func mkSlice(t types.Type, arr, off, ln, cp *Term) Val {
	return Val{T: t, L: []*Term{arr, off, ln, cp}}
}

func elemType(t types.Type) types.Type {
	switch u := t.Underlying().(type) {
	case *types.Slice:
		return u.Elem()
	case *types.Array:
		return u.Elem()
	case *types.Pointer:
		return elemType(u.Elem())
	case *types.Map:
		return u.Elem()
	case *SpecMap:
		return u.V
	}
	if isStringType(t) {
		return types.Typ[types.Uint8]
	}
	panic("elemType of " + t.String())
}

func shortType(t types.Type) string {
	s := typeKey(t)
	s = strings.ReplaceAll(s, "github.com/pion/interceptor/", "")
	s = strings.ReplaceAll(s, "github.com/pion/", "")
	return s
}
