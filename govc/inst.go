package main

// Goal-directed quantifier instantiation: the universally quantified hypotheses are instantiated at the
// Skolem constants of the goal and at the ground index terms of the query. Dropping the quantified
// hypotheses afterwards only weakens the hypotheses, so `unsat` of the instantiated query is sound.

import (
	"fmt"
	"sort"
	"strings"
)

// skolemize replaces positively occurring universal quantifiers of the goal by fresh constants.
func skolemize(g *Term, sks *[]*Term) *Term {
	switch g.Op {
	case "forall":
		m := map[*Term]*Term{}
		for _, b := range g.Bound {
			c := FreshVar("sk_"+b.Name, b.S)
			m[b] = c
			*sks = append(*sks, c)
		}
		return skolemize(Subst(g.Args[0], m), sks)
	case "=>":
		return Implies(g.Args[0], skolemize(g.Args[1], sks))
	case "and":
		// conjunction in a goal: each conjunct would need its own constants; goals are split before, keep as is
		return g
	case "or":
		args := make([]*Term, len(g.Args))
		for i, a := range g.Args {
			if a.Op == "forall" && len(g.Args) <= 4 {
				args[i] = skolemize(a, sks)
			} else {
				args[i] = a
			}
		}
		return Or(args...)
	}
	return g
}

// groundIndexTerms collects closed terms used as array indices (select/store), per sort.
func groundIndexTerms(roots []*Term, into map[*Sort][]*Term, seen map[*Term]bool, limit int, withSubTerms bool) {
	visited := map[*Term]bool{}
	var rec func(t *Term)
	rec = func(t *Term) {
		if visited[t] {
			return
		}
		visited[t] = true
		if (t.Op == "select" || t.Op == "store") && len(t.Args) >= 2 {
			ix := t.Args[1]
			if len(ix.fb) == 0 && !seen[ix] && len(into[ix.S]) < limit {
				seen[ix] = true
				into[ix.S] = append(into[ix.S], ix)
			}
			// sub-terms of index expressions (e.g. x % size inside off + zext(x % size)) are candidates too
			if len(ix.fb) == 0 && withSubTerms {
				var sub func(u *Term, d int)
				sub = func(u *Term, d int) {
					if d > 4 || u.IsConst() {
						return
					}
					if u != ix && u.S.K == KBV && u.S != ix.S && !seen[u] && len(into[u.S]) < limit && (u.Op == "bvurem" || u.Op == "bvand" || u.Op == "var" || u.Op == "select" || u.Op == "bvadd" || u.Op == "bvsub") {
						seen[u] = true
						into[u.S] = append(into[u.S], u)
					}
					for _, a := range u.Args {
						sub(a, d+1)
					}
				}
				sub(ix, 0)
			}
		}
		for _, a := range t.Args {
			rec(a)
		}
	}
	for _, r := range roots {
		rec(r)
	}
}

// indexOffsets: closed terms c such that the body selects at (c + b) or (b + c).
func indexOffsets(body *Term, b *Term) []*Term {
	var out []*Term
	seen := map[*Term]bool{}
	vis := map[*Term]bool{}
	var rec func(t *Term)
	rec = func(t *Term) {
		if vis[t] {
			return
		}
		vis[t] = true
		if (t.Op == "select" || t.Op == "store") && len(t.Args) >= 2 {
			ix := t.Args[1]
			if ix.Op == "bvadd" && len(ix.Args) == 2 {
				for k := 0; k < 2; k++ {
					if ix.Args[k] == b && len(ix.Args[1-k].fb) == 0 && !seen[ix.Args[1-k]] {
						seen[ix.Args[1-k]] = true
						out = append(out, ix.Args[1-k])
					}
				}
			}
		}
		for _, a := range t.Args {
			rec(a)
		}
	}
	rec(body)
	return out
}

// instances of a hypothesis: for every positively occurring forall, the body at each candidate term.
func instantiateHyp(h *Term, cands map[*Sort][]*Term, out *[]*Term, budget *int, offsetMatch bool) {
	var rec func(t *Term, guard []*Term)
	rec = func(t *Term, guard []*Term) {
		switch t.Op {
		case "forall":
			lists := make([][]*Term, len(t.Bound))
			total := 1
			for i, b := range t.Bound {
				lists[i] = cands[b.S]
				if offsetMatch && b.S.K == KBV {
					// offset matching: the body indexes arrays at (c + b); a ground index t suggests b := t - c
					offs := indexOffsets(t.Args[0], b)
					if len(offs) > 0 {
						seenC := map[*Term]bool{}
						ext := append([]*Term{}, lists[i]...)
						for _, x := range ext {
							seenC[x] = true
						}
						for _, g := range cands[b.S] {
							for _, c := range offs {
								d := BVBin("bvsub", g, c)
								if !seenC[d] && len(ext) < 40 {
									seenC[d] = true
									ext = append(ext, d)
								}
							}
						}
						lists[i] = ext
					}
				}
				total *= len(lists[i])
			}
			if total == 0 || total > 400 {
				return
			}
			idx := make([]int, len(t.Bound))
			for {
				m := map[*Term]*Term{}
				for i, b := range t.Bound {
					m[b] = lists[i][idx[i]]
				}
				body := Subst(t.Args[0], m)
				if *budget <= 0 {
					return
				}
				*budget--
				// nested positive quantifiers in the instantiated body
				if body.Op == "forall" || body.Op == "=>" || body.Op == "and" {
					rec(body, guard)
				}
				if body.Op != "forall" {
					*out = append(*out, Implies(And(guard...), body))
				}
				k := len(idx) - 1
				for k >= 0 {
					idx[k]++
					if idx[k] < len(lists[k]) {
						break
					}
					idx[k] = 0
					k--
				}
				if k < 0 {
					break
				}
			}
		case "and":
			for _, a := range t.Args {
				rec(a, guard)
			}
		case "=>":
			rec(t.Args[1], append(append([]*Term{}, guard...), t.Args[0]))
		}
	}
	rec(h, nil)
}

// Instantiated returns (qfQuery, fullQuery): the first has no quantified hypotheses (only their instances),
// the second keeps them and adds the instances.
func (q *Query) Instantiated(level int) (*Query, *Query) {
	withSub := level >= 1
	offsetMatch := level >= 1
	if q.Goal == nil {
		return nil, q
	}
	// antecedents of the goal become hypotheses (so that their quantifiers can be instantiated too)
	hyps0 := q.Hyps
	g0 := q.Goal
	for g0.Op == "=>" && hasQuantifier(g0.Args[0]) {
		hyps0 = append(append([]*Term{}, hyps0...), g0.Args[0])
		g0 = g0.Args[1]
	}
	q = &Query{Hyps: hyps0, Goal: g0, Extra: q.Extra, FPMode: q.FPMode}
	var sks []*Term
	goal := skolemize(q.Goal, &sks)
	anyQ := false
	for _, h := range q.Hyps {
		if hasQuantifier(h) {
			anyQ = true
			break
		}
	}
	if !anyQ {
		return nil, &Query{Hyps: q.Hyps, Goal: goal, Extra: q.Extra, FPMode: q.FPMode}
	}
	cands := map[*Sort][]*Term{}
	seen := map[*Term]bool{}
	for _, s := range sks {
		cands[s.S] = append(cands[s.S], s)
		seen[s] = true
	}
	groundIndexTerms([]*Term{goal}, cands, seen, 10, withSub)
	groundIndexTerms(orderByRelevance(goal, q.Hyps), cands, seen, 14, withSub)
	if level >= 2 {
		// width casts of index-like candidates: a uint16 slot number used as an int index and vice versa
		add := func(t *Term) {
			if !seen[t] && len(cands[t.S]) < 24 {
				seen[t] = true
				cands[t.S] = append(cands[t.S], t)
			}
		}
		for _, u := range append([]*Term{}, cands[BVS(64)]...) {
			if !u.IsConst() {
				add(Extract(u, 15, 0))
			}
			if u.Op == "bvadd" && len(u.Args) == 2 {
				for _, a := range u.Args {
					if !a.IsConst() {
						add(Extract(a, 15, 0))
					}
				}
			}
		}
		for _, u := range append([]*Term{}, cands[BVS(16)]...) {
			if !u.IsConst() {
				add(ZeroExt(u, 64))
			}
		}
	}
	var inst []*Term
	budget := 3000
	for round := 0; round < 2; round++ {
		var out []*Term
		for _, h := range q.Hyps {
			if hasQuantifier(h) {
				instantiateHyp(h, cands, &out, &budget, offsetMatch)
			}
		}
		inst = out
		if round == 0 {
			// new ground index terms created by the instances
			before := 0
			for _, l := range cands {
				before += len(l)
			}
			groundIndexTerms(out, cands, seen, 18, withSub)
			after := 0
			for _, l := range cands {
				after += len(l)
			}
			if after == before {
				break
			}
		}
	}
	// dedupe
	uniq := map[*Term]bool{}
	var insts []*Term
	for _, t := range inst {
		if t.Op != "true" && !uniq[t] {
			uniq[t] = true
			insts = append(insts, t)
		}
	}
	sort.SliceStable(insts, func(i, j int) bool { return insts[i].id < insts[j].id })
	var qfHyps, fullHyps []*Term
	for _, h := range q.Hyps {
		fullHyps = append(fullHyps, h)
		if !hasQuantifier(h) {
			qfHyps = append(qfHyps, h)
		} else if g := stripQuant(h); g.Op != "true" {
			qfHyps = append(qfHyps, g)
		}
	}
	qfHyps = append(qfHyps, insts...)
	fullHyps = append(fullHyps, insts...)
	qfGoal := goal
	if hasQuantifier(goal) {
		return nil, &Query{Hyps: fullHyps, Goal: goal, Extra: q.Extra, FPMode: q.FPMode}
	}
	return &Query{Hyps: qfHyps, Goal: qfGoal, Extra: q.Extra, FPMode: q.FPMode}, &Query{Hyps: fullHyps, Goal: goal, Extra: q.Extra, FPMode: q.FPMode}
}

// stripQuant weakens a hypothesis by replacing positively occurring quantified parts by true.
func stripQuant(h *Term) *Term {
	if !hasQuantifier(h) {
		return h
	}
	switch h.Op {
	case "and":
		var out []*Term
		for _, a := range h.Args {
			out = append(out, stripQuant(a))
		}
		return And(out...)
	case "=>":
		if hasQuantifier(h.Args[0]) {
			return True
		}
		return Implies(h.Args[0], stripQuant(h.Args[1]))
	}
	return True
}

// scalarSyms: names of the non-array free variables of t, plus "sel:<array>" for array variables read at closed scalar-free indices.
func scalarSyms(t *Term, into map[string]bool) {
	seen := map[*Term]bool{}
	var rec func(t *Term)
	rec = func(t *Term) {
		if seen[t] {
			return
		}
		seen[t] = true
		if t.Op == "var" && t.S.K != KArray {
			into[t.Name] = true
			return
		}
		for _, a := range t.Args {
			rec(a)
		}
	}
	rec(t)
}

// Sliced keeps only the hypotheses connected to the goal through scalar symbols (two rounds); sound because
// dropping hypotheses only weakens them.
func (q *Query) Sliced(rounds int) *Query {
	if q.Goal == nil {
		return nil
	}
	cone := map[string]bool{}
	scalarSyms(q.Goal, cone)
	type hs struct {
		t    *Term
		syms map[string]bool
	}
	var all []hs
	seenH := map[*Term]bool{}
	for _, h := range q.Hyps {
		if seenH[h] || hasQuantifier(h) {
			continue
		}
		seenH[h] = true
		m := map[string]bool{}
		scalarSyms(h, m)
		all = append(all, hs{h, m})
	}
	picked := map[*Term]bool{}
	var out []*Term
	for r := 0; r < rounds; r++ {
		grew := false
		for _, h := range all {
			if picked[h.t] || len(h.syms) == 0 || len(h.syms) > 12 {
				continue
			}
			hit := false
			for s := range h.syms {
				if cone[s] {
					hit = true
					break
				}
			}
			if hit {
				picked[h.t] = true
				out = append(out, h.t)
				for s := range h.syms {
					if !cone[s] {
						cone[s] = true
						grew = true
					}
				}
			}
		}
		if !grew {
			break
		}
	}
	var sks []*Term
	return &Query{Hyps: out, Goal: skolemize(q.Goal, &sks), Extra: q.Extra, FPMode: q.FPMode}
}

// Scalarized replaces every closed scalar-sorted select/UF-free array read by a fresh variable (identical reads
// share the variable). Relations between different reads are lost, so only `unsat` is meaningful - and sound.
// With absArith, multiplications and divisions become uninterpreted functions too (an abstraction: still sound for `unsat`).
func (q *Query) Scalarized(absArith bool) *Query {
	m := map[*Term]*Term{}
	cache := map[*Term]*Term{}
	// uninterpreted applications whose array arguments are the same everywhere keep their scalar arguments
	// (so congruence on those still works); the shared array arguments are dropped
	sameArr := map[string][]*Term{}
	okArr := map[string]bool{}
	{
		seen := map[*Term]bool{}
		var scan func(t *Term)
		scan = func(t *Term) {
			if seen[t] {
				return
			}
			seen[t] = true
			if strings.HasPrefix(t.Op, "app:") && hasArrayArg(t) {
				var arrs []*Term
				for _, a := range t.Args {
					if a.S.K == KArray {
						arrs = append(arrs, a)
					}
				}
				if prev, ok := sameArr[t.Op]; !ok {
					sameArr[t.Op] = arrs
					okArr[t.Op] = true
				} else if len(prev) != len(arrs) {
					okArr[t.Op] = false
				} else {
					for i := range arrs {
						if arrs[i] != prev[i] {
							okArr[t.Op] = false
						}
					}
				}
			}
			for _, a := range t.Args {
				scan(a)
			}
		}
		scan(q.Goal)
		for _, h := range q.Hyps {
			scan(h)
		}
	}
	var rec func(t *Term) *Term
	rec = func(t *Term) *Term {
		if r, ok := cache[t]; ok {
			return r
		}
		var r *Term
		switch {
		case t.Op == "select" && t.Args[0].Op == "ite":
			// push reads through conditionals so that the stored values become visible
			a := t.Args[0]
			r = Ite(rec(a.Args[0]), rec(Select(a.Args[1], t.Args[1])), rec(Select(a.Args[2], t.Args[1])))
		case strings.HasPrefix(t.Op, "app:") && hasArrayArg(t) && okArr[t.Op] && t.S.K != KArray:
			var sargs []*Term
			for _, a := range t.Args {
				if a.S.K != KArray {
					sargs = append(sargs, rec(a))
				}
			}
			r = App(t.Op[4:]+"_s", t.S, sargs...)
		case t.Op == "select" && t.S.K != KArray:
			// a read becomes an uninterpreted function of its indices, one function per array term
			base := t
			var idx []*Term
			for base.Op == "select" {
				idx = append([]*Term{rec(base.Args[1])}, idx...)
				base = base.Args[0]
			}
			r = App(fmt.Sprintf("rd_%d", base.id), t.S, idx...)
		case (t.Op == "select" || (strings.HasPrefix(t.Op, "app:") && hasArrayArg(t))) && t.S.K != KArray && len(t.fb) == 0:
			v, ok := m[t]
			if !ok {
				v = FreshVar("rd", t.S)
				m[t] = v
			}
			r = v
		case len(t.Args) == 0:
			r = t
		case absArith && len(t.Args) == 2 && (t.Op == "bvmul" || t.Op == "bvudiv" || t.Op == "bvsdiv" || t.Op == "bvurem" || t.Op == "bvsrem"):
			r = App(fmt.Sprintf("abs_%s%d", t.Op, t.S.W), t.S, rec(t.Args[0]), rec(t.Args[1]))
		default:
			args := make([]*Term, len(t.Args))
			ch := false
			for i, a := range t.Args {
				args[i] = rec(a)
				if args[i] != a {
					ch = true
				}
			}
			if ch {
				r = rebuild(t, args)
			} else {
				r = t
			}
		}
		cache[t] = r
		return r
	}
	out := &Query{Goal: rec(q.Goal), Extra: q.Extra, FPMode: q.FPMode}
	for _, h := range q.Hyps {
		if hasArraySort(h) {
			continue
		}
		out.Hyps = append(out.Hyps, rec(h))
	}
	// drop hypotheses that still mention arrays
	var keep []*Term
	for _, h := range out.Hyps {
		if !mentionsArray(h) {
			keep = append(keep, h)
		}
	}
	out.Hyps = keep
	if mentionsArray(out.Goal) {
		return nil
	}
	return out
}

func hasArraySort(t *Term) bool { return t.S.K == KArray }

func mentionsArray(t *Term) bool {
	seen := map[*Term]bool{}
	var rec func(t *Term) bool
	rec = func(t *Term) bool {
		if seen[t] {
			return false
		}
		seen[t] = true
		if t.S.K == KArray {
			return true
		}
		for _, a := range t.Args {
			if rec(a) {
				return true
			}
		}
		return false
	}
	return rec(t)
}

func hasArrayArg(t *Term) bool {
	for _, a := range t.Args {
		if a.S.K == KArray {
			return true
		}
	}
	return false
}

// AbstractArith replaces multiplications and divisions by uninterpreted functions (an abstraction: `unsat` stays sound).
// Returns nil when the query has none.
func (q *Query) AbstractArith() *Query {
	cache := map[*Term]*Term{}
	changed := false
	var rec func(t *Term) *Term
	rec = func(t *Term) *Term {
		if r, ok := cache[t]; ok {
			return r
		}
		var r *Term
		switch {
		case len(t.Args) == 0:
			r = t
		case len(t.Args) == 2 && (t.Op == "bvmul" || t.Op == "bvudiv" || t.Op == "bvsdiv" || t.Op == "bvurem" || t.Op == "bvsrem"):
			changed = true
			r = App(fmt.Sprintf("abs_%s%d", t.Op, t.S.W), t.S, rec(t.Args[0]), rec(t.Args[1]))
		default:
			args := make([]*Term, len(t.Args))
			ch := false
			for i, a := range t.Args {
				args[i] = rec(a)
				if args[i] != a {
					ch = true
				}
			}
			if ch {
				r = rebuild(t, args)
			} else {
				r = t
			}
		}
		cache[t] = r
		return r
	}
	out := &Query{Extra: q.Extra, FPMode: q.FPMode}
	if q.Goal != nil {
		out.Goal = rec(q.Goal)
	}
	for _, h := range q.Hyps {
		out.Hyps = append(out.Hyps, rec(h))
	}
	if !changed {
		return nil
	}
	return out
}

// allSyms: names of the free variables (any sort) and uninterpreted functions of t.
func allSyms(t *Term, into map[string]bool) {
	seen := map[*Term]bool{}
	var rec func(t *Term)
	rec = func(t *Term) {
		if seen[t] {
			return
		}
		seen[t] = true
		if t.Op == "var" {
			into[t.Name] = true
			return
		}
		if strings.HasPrefix(t.Op, "app:") {
			into[t.Op] = true
		}
		for _, a := range t.Args {
			rec(a)
		}
	}
	rec(t)
}

// orderByRelevance orders the hypotheses by their distance from the goal in the "shares a symbol" graph
// (symbols that occur in more than a quarter of the hypotheses do not connect). Candidate terms for
// instantiation are collected in this order, so the bounded candidate lists fill up with the nearest terms first.
func orderByRelevance(goal *Term, hyps []*Term) []*Term {
	if len(hyps) < 40 {
		return hyps
	}
	syms := make([]map[string]bool, len(hyps))
	freq := map[string]int{}
	for i, h := range hyps {
		syms[i] = map[string]bool{}
		allSyms(h, syms[i])
		for s := range syms[i] {
			freq[s]++
		}
	}
	common := func(s string) bool { return freq[s]*4 > len(hyps) }
	cone := map[string]bool{}
	allSyms(goal, cone)
	picked := make([]bool, len(hyps))
	var out []*Term
	for round := 0; round < 6; round++ {
		var add []int
		for i := range hyps {
			if picked[i] {
				continue
			}
			for s := range syms[i] {
				if cone[s] && !common(s) {
					add = append(add, i)
					break
				}
			}
		}
		if len(add) == 0 {
			break
		}
		for _, i := range add {
			picked[i] = true
			out = append(out, hyps[i])
			for s := range syms[i] {
				cone[s] = true
			}
		}
	}
	for i, h := range hyps {
		if !picked[i] {
			out = append(out, h)
		}
	}
	return out
}
