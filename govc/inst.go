package main

// Goal-directed quantifier instantiation: the universally quantified hypotheses are instantiated at the
// Skolem constants of the goal and at the ground index terms of the query. Dropping the quantified
// hypotheses afterwards only weakens the hypotheses, so `unsat` of the instantiated query is sound.

import "sort"

// skolemize replaces positively occurring universal quantifiers of the goal by fresh constants.
func skolemize(g *Term, sks *[]*Term) *Term {
	switch g.Op {
	case "forall":
		m := map[*Term]*Term{}
		for _, b := range g.Bound {
			c := FreshVar("sk_"+b.Name, b.S)
			m[b] = c
			*sks = append(*sks, c)
		}
		return skolemize(Subst(g.Args[0], m), sks)
	case "=>":
		return Implies(g.Args[0], skolemize(g.Args[1], sks))
	case "and":
		// conjunction in a goal: each conjunct would need its own constants; goals are split before, keep as is
		return g
	case "or":
		args := make([]*Term, len(g.Args))
		for i, a := range g.Args {
			if a.Op == "forall" && len(g.Args) <= 4 {
				args[i] = skolemize(a, sks)
			} else {
				args[i] = a
			}
		}
		return Or(args...)
	}
	return g
}

// groundIndexTerms collects closed terms used as array indices (select/store), per sort.
func groundIndexTerms(roots []*Term, into map[*Sort][]*Term, seen map[*Term]bool, limit int, withSubTerms bool) {
	visited := map[*Term]bool{}
	var rec func(t *Term)
	rec = func(t *Term) {
		if visited[t] {
			return
		}
		visited[t] = true
		if (t.Op == "select" || t.Op == "store") && len(t.Args) >= 2 {
			ix := t.Args[1]
			if len(ix.fb) == 0 && !seen[ix] && len(into[ix.S]) < limit {
				seen[ix] = true
				into[ix.S] = append(into[ix.S], ix)
			}
			// sub-terms of index expressions (e.g. x % size inside off + zext(x % size)) are candidates too
			if len(ix.fb) == 0 && withSubTerms {
				var sub func(u *Term, d int)
				sub = func(u *Term, d int) {
					if d > 4 || u.IsConst() {
						return
					}
					if u != ix && u.S.K == KBV && u.S != ix.S && !seen[u] && len(into[u.S]) < limit && (u.Op == "bvurem" || u.Op == "bvand" || u.Op == "var" || u.Op == "select" || u.Op == "bvadd" || u.Op == "bvsub") {
						seen[u] = true
						into[u.S] = append(into[u.S], u)
					}
					for _, a := range u.Args {
						sub(a, d+1)
					}
				}
				sub(ix, 0)
			}
		}
		for _, a := range t.Args {
			rec(a)
		}
	}
	for _, r := range roots {
		rec(r)
	}
}

// instances of a hypothesis: for every positively occurring forall, the body at each candidate term.
func instantiateHyp(h *Term, cands map[*Sort][]*Term, out *[]*Term, budget *int) {
	var rec func(t *Term, guard []*Term)
	rec = func(t *Term, guard []*Term) {
		switch t.Op {
		case "forall":
			lists := make([][]*Term, len(t.Bound))
			total := 1
			for i, b := range t.Bound {
				lists[i] = cands[b.S]
				total *= len(lists[i])
			}
			if total == 0 || total > 400 {
				return
			}
			idx := make([]int, len(t.Bound))
			for {
				m := map[*Term]*Term{}
				for i, b := range t.Bound {
					m[b] = lists[i][idx[i]]
				}
				body := Subst(t.Args[0], m)
				if *budget <= 0 {
					return
				}
				*budget--
				// nested positive quantifiers in the instantiated body
				if body.Op == "forall" || body.Op == "=>" || body.Op == "and" {
					rec(body, guard)
				}
				if body.Op != "forall" {
					*out = append(*out, Implies(And(guard...), body))
				}
				k := len(idx) - 1
				for k >= 0 {
					idx[k]++
					if idx[k] < len(lists[k]) {
						break
					}
					idx[k] = 0
					k--
				}
				if k < 0 {
					break
				}
			}
		case "and":
			for _, a := range t.Args {
				rec(a, guard)
			}
		case "=>":
			rec(t.Args[1], append(append([]*Term{}, guard...), t.Args[0]))
		}
	}
	rec(h, nil)
}

// Instantiated returns (qfQuery, fullQuery): the first has no quantified hypotheses (only their instances),
// the second keeps them and adds the instances.
func (q *Query) Instantiated(level int) (*Query, *Query) {
	withSub := level >= 1
	if q.Goal == nil {
		return nil, q
	}
	var sks []*Term
	goal := skolemize(q.Goal, &sks)
	anyQ := false
	for _, h := range q.Hyps {
		if hasQuantifier(h) {
			anyQ = true
			break
		}
	}
	if !anyQ {
		return nil, &Query{Hyps: q.Hyps, Goal: goal, Extra: q.Extra, FPMode: q.FPMode}
	}
	cands := map[*Sort][]*Term{}
	seen := map[*Term]bool{}
	for _, s := range sks {
		cands[s.S] = append(cands[s.S], s)
		seen[s] = true
	}
	groundIndexTerms([]*Term{goal}, cands, seen, 10, withSub)
	groundIndexTerms(q.Hyps, cands, seen, 14, withSub)
	if level >= 2 {
		// width casts of index-like candidates: a uint16 slot number used as an int index and vice versa
		add := func(t *Term) {
			if !seen[t] && len(cands[t.S]) < 24 {
				seen[t] = true
				cands[t.S] = append(cands[t.S], t)
			}
		}
		for _, u := range append([]*Term{}, cands[BVS(64)]...) {
			if !u.IsConst() {
				add(Extract(u, 15, 0))
			}
			if u.Op == "bvadd" && len(u.Args) == 2 {
				for _, a := range u.Args {
					if !a.IsConst() {
						add(Extract(a, 15, 0))
					}
				}
			}
		}
		for _, u := range append([]*Term{}, cands[BVS(16)]...) {
			if !u.IsConst() {
				add(ZeroExt(u, 64))
			}
		}
	}
	var inst []*Term
	budget := 3000
	for round := 0; round < 2; round++ {
		var out []*Term
		for _, h := range q.Hyps {
			if hasQuantifier(h) {
				instantiateHyp(h, cands, &out, &budget)
			}
		}
		inst = out
		if round == 0 {
			// new ground index terms created by the instances
			before := 0
			for _, l := range cands {
				before += len(l)
			}
			groundIndexTerms(out, cands, seen, 18, withSub)
			after := 0
			for _, l := range cands {
				after += len(l)
			}
			if after == before {
				break
			}
		}
	}
	// dedupe
	uniq := map[*Term]bool{}
	var insts []*Term
	for _, t := range inst {
		if t.Op != "true" && !uniq[t] {
			uniq[t] = true
			insts = append(insts, t)
		}
	}
	sort.SliceStable(insts, func(i, j int) bool { return insts[i].id < insts[j].id })
	var qfHyps, fullHyps []*Term
	for _, h := range q.Hyps {
		fullHyps = append(fullHyps, h)
		if !hasQuantifier(h) {
			qfHyps = append(qfHyps, h)
		} else if g := stripQuant(h); g.Op != "true" {
			qfHyps = append(qfHyps, g)
		}
	}
	qfHyps = append(qfHyps, insts...)
	fullHyps = append(fullHyps, insts...)
	qfGoal := goal
	if hasQuantifier(goal) {
		return nil, &Query{Hyps: fullHyps, Goal: goal, Extra: q.Extra, FPMode: q.FPMode}
	}
	return &Query{Hyps: qfHyps, Goal: qfGoal, Extra: q.Extra, FPMode: q.FPMode}, &Query{Hyps: fullHyps, Goal: goal, Extra: q.Extra, FPMode: q.FPMode}
}

// stripQuant weakens a hypothesis by replacing positively occurring quantified parts by true.
func stripQuant(h *Term) *Term {
	if !hasQuantifier(h) {
		return h
	}
	switch h.Op {
	case "and":
		var out []*Term
		for _, a := range h.Args {
			out = append(out, stripQuant(a))
		}
		return And(out...)
	case "=>":
		if hasQuantifier(h.Args[0]) {
			return True
		}
		return Implies(h.Args[0], stripQuant(h.Args[1]))
	}
	return True
}
