package main

// Typed SMT term DAG with hash-consing and light simplification.

import (
	"fmt"
	"math/big"
	"sort"
	"strings"
	"sync"
)

type SortKind int

const (
	KBool SortKind = iota
	KBV
	KInt
	KArray
	KF64 // float64 (uninterpreted sort or FloatingPoint 11 53)
	KF32
	KReal
)

type Sort struct {
	K    SortKind
	W    int
	A, B *Sort
	key  string
}

var (
	sortMu    sync.Mutex
	sortTable = map[string]*Sort{}
)

func internSort(s *Sort) *Sort {
	sortMu.Lock()
	defer sortMu.Unlock()
	if x, ok := sortTable[s.key]; ok {
		return x
	}
	sortTable[s.key] = s
	return s
}

var (
	BoolS = internSort(&Sort{K: KBool, key: "Bool"})
	IntS  = internSort(&Sort{K: KInt, key: "Int"})
	F64S  = internSort(&Sort{K: KF64, key: "F64"})
	F32S  = internSort(&Sort{K: KF32, key: "F32"})
	RealS = internSort(&Sort{K: KReal, key: "Real"})
)

func BVS(w int) *Sort {
	return internSort(&Sort{K: KBV, W: w, key: fmt.Sprintf("(_ BitVec %d)", w)})
}

func ArrS(a, b *Sort) *Sort {
	return internSort(&Sort{K: KArray, A: a, B: b, key: "(Array " + a.key + " " + b.key + ")"})
}

func (s *Sort) String() string { return s.key }

type Term struct {
	Op    string // SMT head or one of: var, bvconst, intconst, true, false, forall, exists, app:<name>, bound, fconst
	Args  []*Term
	S     *Sort
	Name  string  // var name / const value
	Bound []*Term // for quantifiers
	id    int
	fb    []int // ids of free bound variables
}

var (
	termMu    sync.Mutex
	termTable = map[string]*Term{}
	termCount int
	varCount  int
)

func mk(op string, s *Sort, name string, bound []*Term, args ...*Term) *Term {
	var sb strings.Builder
	sb.WriteString(op)
	sb.WriteByte('|')
	sb.WriteString(s.key)
	sb.WriteByte('|')
	sb.WriteString(name)
	for _, b := range bound {
		fmt.Fprintf(&sb, "|b%d", b.id)
	}
	for _, a := range args {
		fmt.Fprintf(&sb, "|%d", a.id)
	}
	k := sb.String()
	termMu.Lock()
	defer termMu.Unlock()
	if t, ok := termTable[k]; ok {
		return t
	}
	termCount++
	t := &Term{Op: op, Args: args, S: s, Name: name, Bound: bound, id: termCount}
	// free bound vars
	if op == "bound" {
		t.fb = []int{t.id}
	} else {
		var set map[int]bool
		for _, a := range args {
			for _, x := range a.fb {
				if set == nil {
					set = map[int]bool{}
				}
				set[x] = true
			}
		}
		for _, b := range bound {
			delete(set, b.id)
		}
		if len(set) > 0 {
			for x := range set {
				t.fb = append(t.fb, x)
			}
			sort.Ints(t.fb)
		}
	}
	termTable[k] = t
	return t
}

func Var(name string, s *Sort) *Term { return mk("var", s, name, nil) }

func FreshVar(prefix string, s *Sort) *Term {
	termMu.Lock()
	varCount++
	n := varCount
	termMu.Unlock()
	return Var(fmt.Sprintf("%s!%d", sanitize(prefix), n), s)
}

func BoundVar(prefix string, s *Sort) *Term {
	termMu.Lock()
	varCount++
	n := varCount
	termMu.Unlock()
	t := mk("bound", s, fmt.Sprintf("%s!%d", sanitize(prefix), n), nil)
	termMu.Lock()
	boundByID[t.id] = t
	termMu.Unlock()
	return t
}

var boundByID = map[int]*Term{}

// closeOver universally quantifies the free bound variables of t (used for facts that are valid for every value).
func closeOver(t *Term) *Term {
	if len(t.fb) == 0 {
		return t
	}
	var bs []*Term
	termMu.Lock()
	for _, id := range t.fb {
		bs = append(bs, boundByID[id])
	}
	termMu.Unlock()
	return Forall(bs, t)
}

func sanitize(s string) string {
	var sb strings.Builder
	for _, r := range s {
		if r >= 'a' && r <= 'z' || r >= 'A' && r <= 'Z' || r >= '0' && r <= '9' || r == '_' || r == '.' {
			sb.WriteRune(r)
		} else {
			sb.WriteByte('_')
		}
	}
	return sb.String()
}

var (
	True  = mk("true", BoolS, "", nil)
	False = mk("false", BoolS, "", nil)
)

func BoolT(b bool) *Term {
	if b {
		return True
	}
	return False
}

func IntC(n int64) *Term { return mk("intconst", IntS, fmt.Sprint(n), nil) }

func BVC(v *big.Int, w int) *Term {
	m := new(big.Int).Lsh(big.NewInt(1), uint(w))
	x := new(big.Int).Mod(v, m)
	return mk("bvconst", BVS(w), x.String(), nil)
}

func BVI(v int64, w int) *Term { return BVC(big.NewInt(v), w) }

func (t *Term) IsConst() bool {
	return t.Op == "bvconst" || t.Op == "intconst" || t.Op == "true" || t.Op == "false"
}

func (t *Term) BigVal() *big.Int {
	v, _ := new(big.Int).SetString(t.Name, 10)
	return v
}

// signed value of a bvconst
func (t *Term) SignedVal() *big.Int {
	v := t.BigVal()
	w := t.S.W
	if v.Bit(w-1) == 1 {
		v = new(big.Int).Sub(v, new(big.Int).Lsh(big.NewInt(1), uint(w)))
	}
	return v
}

// ---- boolean connectives

func Not(a *Term) *Term {
	switch a.Op {
	case "true":
		return False
	case "false":
		return True
	case "not":
		return a.Args[0]
	}
	return mk("not", BoolS, "", nil, a)
}

func And(ts ...*Term) *Term {
	var out []*Term
	seen := map[int]bool{}
	var add func(t *Term) bool
	add = func(t *Term) bool {
		if t.Op == "true" {
			return true
		}
		if t.Op == "false" {
			return false
		}
		if t.Op == "and" {
			for _, a := range t.Args {
				if !add(a) {
					return false
				}
			}
			return true
		}
		if seen[t.id] {
			return true
		}
		seen[t.id] = true
		out = append(out, t)
		return true
	}
	for _, t := range ts {
		if !add(t) {
			return False
		}
	}
	for _, t := range out {
		if t.Op == "not" && seen[t.Args[0].id] {
			return False
		}
	}
	if len(out) == 0 {
		return True
	}
	if len(out) == 1 {
		return out[0]
	}
	return mk("and", BoolS, "", nil, out...)
}

func Or(ts ...*Term) *Term {
	var out []*Term
	seen := map[int]bool{}
	for _, t := range ts {
		if t.Op == "true" {
			return True
		}
		if t.Op == "false" {
			continue
		}
		if t.Op == "or" {
			for _, a := range t.Args {
				if !seen[a.id] {
					seen[a.id] = true
					out = append(out, a)
				}
			}
			continue
		}
		if !seen[t.id] {
			seen[t.id] = true
			out = append(out, t)
		}
	}
	for _, t := range out {
		if t.Op == "not" && seen[t.Args[0].id] {
			return True
		}
	}
	if len(out) == 0 {
		return False
	}
	if len(out) == 1 {
		return out[0]
	}
	return mk("or", BoolS, "", nil, out...)
}

func Implies(a, b *Term) *Term {
	if a.Op == "true" {
		return b
	}
	if a.Op == "false" || b.Op == "true" {
		return True
	}
	if b.Op == "false" {
		return Not(a)
	}
	if a == b {
		return True
	}
	return mk("=>", BoolS, "", nil, a, b)
}

func Iff(a, b *Term) *Term { return Eq(a, b) }

func Eq(a, b *Term) *Term {
	if a == b {
		return True
	}
	if a.S != b.S {
		panic(fmt.Sprintf("Eq: sort mismatch %s vs %s (%s, %s)", a.S, b.S, a, b))
	}
	if a.IsConst() && b.IsConst() {
		return BoolT(a.Name == b.Name && a.Op == b.Op)
	}
	if a.S == BoolS {
		if a.Op == "true" {
			return b
		}
		if b.Op == "true" {
			return a
		}
		if a.Op == "false" {
			return Not(b)
		}
		if b.Op == "false" {
			return Not(a)
		}
	}
	if a.S == IntS && distinctRefs(a, b) {
		return False
	}
	if a.id > b.id {
		a, b = b, a
	}
	return mk("=", BoolS, "", nil, a, b)
}

func Ite(c, a, b *Term) *Term {
	if c.Op == "true" {
		return a
	}
	if c.Op == "false" {
		return b
	}
	if a == b {
		return a
	}
	if a.S != b.S {
		panic(fmt.Sprintf("Ite: sort mismatch %s vs %s", a.S, b.S))
	}
	if a.S == BoolS {
		if a.Op == "true" && b.Op == "false" {
			return c
		}
		if a.Op == "false" && b.Op == "true" {
			return Not(c)
		}
		if a.Op == "true" {
			return Or(c, b)
		}
		if b.Op == "false" {
			return And(c, a)
		}
		if a.Op == "false" {
			return And(Not(c), b)
		}
		if b.Op == "true" {
			return Or(Not(c), a)
		}
	}
	if c.Op == "not" {
		return Ite(c.Args[0], b, a)
	}
	return mk("ite", a.S, "", nil, c, a, b)
}

// distinctRefs: syntactic distinctness for Int-sorted reference terms.
func distinctRefs(a, b *Term) bool {
	if a.Op == "intconst" && b.Op == "intconst" {
		return a.Name != b.Name
	}
	ba, ka := splitPlus(a)
	bb, kb := splitPlus(b)
	if ba != nil && ba == bb {
		return ka != kb
	}
	return false
}

func splitPlus(a *Term) (*Term, string) {
	if a.Op == "+" && len(a.Args) == 2 && a.Args[1].Op == "intconst" {
		return a.Args[0], a.Args[1].Name
	}
	if a.Op == "var" {
		return a, "0"
	}
	return nil, ""
}

// ---- ints

func IntAdd(a *Term, k int64) *Term {
	if k == 0 {
		return a
	}
	if a.Op == "intconst" {
		v := a.BigVal()
		return IntC(v.Int64() + k)
	}
	if b, kk := splitPlus(a); b != nil && a.Op == "+" {
		v, _ := new(big.Int).SetString(kk, 10)
		return mk("+", IntS, "", nil, b, IntC(v.Int64()+k))
	}
	return mk("+", IntS, "", nil, a, IntC(k))
}

func IntLe(a, b *Term) *Term {
	if a == b {
		return True
	}
	if a.Op == "intconst" && b.Op == "intconst" {
		return BoolT(a.BigVal().Cmp(b.BigVal()) <= 0)
	}
	return mk("<=", BoolS, "", nil, a, b)
}

func IntLt(a, b *Term) *Term {
	if a == b {
		return False
	}
	if a.Op == "intconst" && b.Op == "intconst" {
		return BoolT(a.BigVal().Cmp(b.BigVal()) < 0)
	}
	return mk("<", BoolS, "", nil, a, b)
}

func IntOp(op string, a, b *Term) *Term { return mk(op, IntS, "", nil, a, b) }

// ---- bit-vectors

func mask(w int) *big.Int {
	return new(big.Int).Sub(new(big.Int).Lsh(big.NewInt(1), uint(w)), big.NewInt(1))
}

func BVBin(op string, a, b *Term) *Term {
	if a.S != b.S {
		panic(fmt.Sprintf("BVBin %s: sort mismatch %s vs %s: %s , %s", op, a.S, b.S, a, b))
	}
	w := a.S.W
	if a.Op == "bvconst" && b.Op == "bvconst" {
		x, y := a.BigVal(), b.BigVal()
		var r *big.Int
		switch op {
		case "bvadd":
			r = new(big.Int).Add(x, y)
		case "bvsub":
			r = new(big.Int).Sub(x, y)
		case "bvmul":
			r = new(big.Int).Mul(x, y)
		case "bvand":
			r = new(big.Int).And(x, y)
		case "bvor":
			r = new(big.Int).Or(x, y)
		case "bvxor":
			r = new(big.Int).Xor(x, y)
		case "bvshl":
			if y.Cmp(big.NewInt(int64(w))) >= 0 {
				r = big.NewInt(0)
			} else {
				r = new(big.Int).Lsh(x, uint(y.Int64()))
			}
		case "bvlshr":
			if y.Cmp(big.NewInt(int64(w))) >= 0 {
				r = big.NewInt(0)
			} else {
				r = new(big.Int).Rsh(x, uint(y.Int64()))
			}
		case "bvudiv":
			if y.Sign() != 0 {
				r = new(big.Int).Div(x, y)
			}
		case "bvurem":
			if y.Sign() != 0 {
				r = new(big.Int).Mod(x, y)
			}
		}
		if r != nil {
			return BVC(r, w)
		}
	}
	// identities
	isZero := func(t *Term) bool { return t.Op == "bvconst" && t.Name == "0" }
	switch op {
	case "bvadd", "bvor", "bvxor":
		if isZero(a) {
			return b
		}
		if isZero(b) {
			return a
		}
	case "bvsub", "bvshl", "bvlshr", "bvashr":
		if isZero(b) {
			return a
		}
	case "bvand":
		if isZero(a) || isZero(b) {
			return BVI(0, w)
		}
	case "bvmul":
		if isZero(a) || isZero(b) {
			return BVI(0, w)
		}
		if a.Op == "bvconst" && a.Name == "1" {
			return b
		}
		if b.Op == "bvconst" && b.Name == "1" {
			return a
		}
	}
	if op == "bvsub" && a == b {
		return BVI(0, w)
	}
	// constant re-association: (x + c1) + c2
	if op == "bvadd" && b.Op == "bvconst" && a.Op == "bvadd" && a.Args[1].Op == "bvconst" {
		return BVBin("bvadd", a.Args[0], BVBin("bvadd", a.Args[1], b))
	}
	if op == "bvsub" && b.Op == "bvconst" {
		// x - c  ==> x + (-c)
		return BVBin("bvadd", a, BVC(new(big.Int).Neg(b.BigVal()), w))
	}
	if op == "bvadd" && a.Op == "bvconst" && b.Op != "bvconst" {
		a, b = b, a
	}
	return mk(op, a.S, "", nil, a, b)
}

func BVCmp(op string, a, b *Term) *Term {
	if a.S != b.S {
		panic(fmt.Sprintf("BVCmp %s: sort mismatch %s vs %s", op, a.S, b.S))
	}
	if a.Op == "bvconst" && b.Op == "bvconst" {
		var x, y *big.Int
		if op[2] == 's' {
			x, y = a.SignedVal(), b.SignedVal()
		} else {
			x, y = a.BigVal(), b.BigVal()
		}
		c := x.Cmp(y)
		switch op[3:] {
		case "lt":
			return BoolT(c < 0)
		case "le":
			return BoolT(c <= 0)
		case "gt":
			return BoolT(c > 0)
		case "ge":
			return BoolT(c >= 0)
		}
	}
	if a == b {
		switch op[3:] {
		case "lt", "gt":
			return False
		default:
			return True
		}
	}
	return mk(op, BoolS, "", nil, a, b)
}

func BVNot(a *Term) *Term {
	if a.Op == "bvconst" {
		return BVC(new(big.Int).Xor(a.BigVal(), mask(a.S.W)), a.S.W)
	}
	return mk("bvnot", a.S, "", nil, a)
}

func BVNeg(a *Term) *Term {
	if a.Op == "bvconst" {
		return BVC(new(big.Int).Neg(a.BigVal()), a.S.W)
	}
	return mk("bvneg", a.S, "", nil, a)
}

func ZeroExt(a *Term, to int) *Term {
	w := a.S.W
	if to == w {
		return a
	}
	if to < w {
		return Extract(a, to-1, 0)
	}
	if a.Op == "bvconst" {
		return BVC(a.BigVal(), to)
	}
	return mk(fmt.Sprintf("(_ zero_extend %d)", to-w), BVS(to), "", nil, a)
}

func SignExt(a *Term, to int) *Term {
	w := a.S.W
	if to == w {
		return a
	}
	if to < w {
		return Extract(a, to-1, 0)
	}
	if a.Op == "bvconst" {
		return BVC(a.SignedVal(), to)
	}
	return mk(fmt.Sprintf("(_ sign_extend %d)", to-w), BVS(to), "", nil, a)
}

func Extract(a *Term, hi, lo int) *Term {
	if lo == 0 && hi == a.S.W-1 {
		return a
	}
	if a.Op == "bvconst" {
		v := new(big.Int).Rsh(a.BigVal(), uint(lo))
		return BVC(v, hi-lo+1)
	}
	// extract of zero/sign extend of something no wider than result
	if lo == 0 && (strings.HasPrefix(a.Op, "(_ zero_extend") || strings.HasPrefix(a.Op, "(_ sign_extend")) {
		in := a.Args[0]
		if in.S.W == hi+1 {
			return in
		}
		if in.S.W > hi+1 {
			return Extract(in, hi, 0)
		}
	}
	return mk(fmt.Sprintf("(_ extract %d %d)", hi, lo), BVS(hi-lo+1), "", nil, a)
}

func Concat(a, b *Term) *Term {
	if a.Op == "bvconst" && b.Op == "bvconst" {
		v := new(big.Int).Lsh(a.BigVal(), uint(b.S.W))
		v.Or(v, b.BigVal())
		return BVC(v, a.S.W+b.S.W)
	}
	return mk("concat", BVS(a.S.W+b.S.W), "", nil, a, b)
}

// ---- arrays

func Select(a, i *Term) *Term {
	if a.S.K != KArray {
		panic("Select on non-array " + a.S.key + " " + a.String())
	}
	if a.S.A != i.S {
		panic(fmt.Sprintf("Select: index sort %s, want %s", i.S, a.S.A))
	}
	for a.Op == "store" {
		j := a.Args[1]
		if j == i {
			return a.Args[2]
		}
		if (i.IsConst() && j.IsConst()) || (i.S == IntS && distinctRefs(i, j)) {
			a = a.Args[0]
			continue
		}
		break
	}
	if a.Op == "constarr" {
		return a.Args[0]
	}
	if a.Op == "ite" && a.Args[1].Op != "ite" && a.Args[2].Op != "ite" {
		// push select through a single ite of stores when it simplifies
		x, y := Select(a.Args[1], i), Select(a.Args[2], i)
		if x == y {
			return x
		}
	}
	return mk("select", a.S.B, "", nil, a, i)
}

func Store(a, i, v *Term) *Term {
	if a.S.K != KArray || a.S.A != i.S || a.S.B != v.S {
		panic(fmt.Sprintf("Store: sort mismatch arr=%s idx=%s val=%s", a.S, i.S, v.S))
	}
	if a.Op == "store" && a.Args[1] == i {
		a = a.Args[0]
	}
	if v.Op == "select" && v.Args[0] == a && v.Args[1] == i {
		return a
	}
	return mk("store", a.S, "", nil, a, i, v)
}

func ConstArr(s *Sort, v *Term) *Term { return mk("constarr", s, "", nil, v) }

// ---- quantifiers and uninterpreted functions

func Forall(bs []*Term, body *Term) *Term {
	if body.Op == "true" || body.Op == "false" {
		return body
	}
	var used []*Term
	for _, b := range bs {
		for _, x := range body.fb {
			if x == b.id {
				used = append(used, b)
				break
			}
		}
	}
	if len(used) == 0 {
		return body
	}
	return mk("forall", BoolS, "", used, body)
}

func Exists(bs []*Term, body *Term) *Term {
	return Not(Forall(bs, Not(body)))
}

func App(name string, s *Sort, args ...*Term) *Term { return mk("app:"+name, s, "", nil, args...) }

// Subst replaces variables (var or bound) by terms.
func Subst(t *Term, m map[*Term]*Term) *Term {
	cache := map[*Term]*Term{}
	var rec func(t *Term) *Term
	rec = func(t *Term) *Term {
		if r, ok := m[t]; ok {
			return r
		}
		if len(t.Args) == 0 {
			return t
		}
		if r, ok := cache[t]; ok {
			return r
		}
		args := make([]*Term, len(t.Args))
		ch := false
		for i, a := range t.Args {
			args[i] = rec(a)
			if args[i] != a {
				ch = true
			}
		}
		r := t
		if ch {
			r = rebuild(t, args)
		}
		cache[t] = r
		return r
	}
	return rec(t)
}

func rebuild(t *Term, args []*Term) *Term {
	switch t.Op {
	case "and":
		return And(args...)
	case "or":
		return Or(args...)
	case "not":
		return Not(args[0])
	case "=>":
		return Implies(args[0], args[1])
	case "=":
		return Eq(args[0], args[1])
	case "ite":
		return Ite(args[0], args[1], args[2])
	case "select":
		return Select(args[0], args[1])
	case "store":
		return Store(args[0], args[1], args[2])
	case "forall":
		return Forall(t.Bound, args[0])
	case "bvadd", "bvsub", "bvmul", "bvand", "bvor", "bvxor", "bvshl", "bvlshr", "bvashr", "bvudiv", "bvurem", "bvsdiv", "bvsrem":
		return BVBin(t.Op, args[0], args[1])
	case "bvult", "bvule", "bvugt", "bvuge", "bvslt", "bvsle", "bvsgt", "bvsge":
		return BVCmp(t.Op, args[0], args[1])
	}
	if strings.HasPrefix(t.Op, "(_ zero_extend") {
		return ZeroExt(args[0], t.S.W)
	}
	if strings.HasPrefix(t.Op, "(_ sign_extend") {
		return SignExt(args[0], t.S.W)
	}
	return mk(t.Op, t.S, t.Name, t.Bound, args...)
}

// ---- printing

func (t *Term) String() string {
	var sb strings.Builder
	printTerm(&sb, t, nil)
	return sb.String()
}

func smtName(n string) string { return "|" + n + "|" }

func printTerm(sb *strings.Builder, t *Term, names map[*Term]string) {
	if n, ok := names[t]; ok {
		sb.WriteString(n)
		return
	}
	switch t.Op {
	case "var", "bound":
		sb.WriteString(smtName(t.Name))
	case "true", "false":
		sb.WriteString(t.Op)
	case "intconst":
		if strings.HasPrefix(t.Name, "-") {
			sb.WriteString("(- " + t.Name[1:] + ")")
		} else {
			sb.WriteString(t.Name)
		}
	case "bvconst":
		fmt.Fprintf(sb, "(_ bv%s %d)", t.Name, t.S.W)
	case "fconst":
		sb.WriteString(smtName("fc_" + t.Name))
	case "constarr":
		fmt.Fprintf(sb, "((as const %s) ", t.S.key)
		printTerm(sb, t.Args[0], names)
		sb.WriteString(")")
	case "forall", "exists":
		sb.WriteString("(" + t.Op + " (")
		for _, b := range t.Bound {
			fmt.Fprintf(sb, "(%s %s)", smtName(b.Name), b.S.key)
		}
		sb.WriteString(") ")
		printTerm(sb, t.Args[0], names)
		sb.WriteString(")")
	default:
		op := t.Op
		if strings.HasPrefix(op, "app:") {
			op = smtName(op[4:])
			if len(t.Args) == 0 {
				sb.WriteString(op)
				return
			}
		}
		sb.WriteString("(" + op)
		for _, a := range t.Args {
			sb.WriteByte(' ')
			printTerm(sb, a, names)
		}
		sb.WriteString(")")
	}
}
