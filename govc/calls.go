package main

// Calls: builtins, inlining, modular (contract) calls, abstract calls, trusted external specs.

import (
	"sync"
	"go/ast"
	"fmt"
	"go/token"
	"go/types"
	"strings"

	"golang.org/x/tools/go/ssa"
)

func (ex *Exec) execCall(fr *Frame, st *State, c *ssa.CallCommon, instr *ssa.Call, pos token.Pos) []Val {
	rs := ex.execCall1(fr, st, c, instr, pos)
	// call-site assumptions of the function under proof
	if top := ex.ld.contractFor(ex.top); top != nil && len(top.AssumeAfter) > 0 && fr.parent == nil {
		key := callKey(c)
		for _, ca := range top.AssumeAfter {
			if ca.Key != key {
				continue
			}
			env := ex.envAt(fr, st, fr.curBlock)
			env.results = rs
			ex.assume(st, ex.evalBool(env, ca.Cl.E))
			ex.trustedUsed["assumed after call "+key+": "+ca.Cl.Src] = true
			// vacuity guard: the assumption must not contradict what is known on this path
			ex.obs = append(ex.obs, &Obligation{Name: fnKey(ex.top) + "#cover:assume_after:" + key + ":" + ca.Cl.Label, Kind: "cover", Fn: fnKey(ex.top), Cover: true,
				Src: "assume_after " + ca.Cl.Src, Hyps: append(append([]*Term{}, ex.assumptions...), st.pc...), ex: ex, st: st.clone()})
		}
	}
	return rs
}

// callKey names a call site for contracts: recv.Method for methods, Func otherwise.
func callKey(c *ssa.CallCommon) string {
	if c.IsInvoke() {
		return sourceName(c.Value) + "." + c.Method.Name()
	}
	if f := c.StaticCallee(); f != nil {
		if f.Signature.Recv() != nil && len(c.Args) > 0 {
			return sourceName(c.Args[0]) + "." + f.Name()
		}
		return f.Name()
	}
	return sourceName(c.Value)
}

func (ex *Exec) execCall1(fr *Frame, st *State, c *ssa.CallCommon, instr *ssa.Call, pos token.Pos) []Val {
	var args []Val
	for _, a := range c.Args {
		args = append(args, ex.val(fr, a))
	}
	if c.IsInvoke() {
		recv := ex.val(fr, c.Value)
		tag := recv.L[0]
		if tag.Op == "intconst" && tag.Name != "0" {
			ct := ex.ld.tagType(tag)
			sel := ex.ld.prog.MethodSets.MethodSet(ct).Lookup(c.Method.Pkg(), c.Method.Name())
			if sel != nil {
				if fn := ex.ld.prog.MethodValue(sel); fn != nil {
					rv := ex.unbox(st, recv, ct)
					return ex.callStatic(fr, st, fn, append([]Val{rv}, args...), nil, pos)
				}
			}
		}
		return ex.abstractCall(fr, st, c, recv, args, pos)
	}
	switch v := c.Value.(type) {
	case *ssa.Builtin:
		return ex.builtin(fr, st, v, c, args, pos)
	case *ssa.Function:
		return ex.callStatic(fr, st, v, args, nil, pos)
	case *ssa.MakeClosure:
		var bs []Val
		for _, b := range v.Bindings {
			bs = append(bs, ex.val(fr, b))
		}
		return ex.callStatic(fr, st, v.Fn.(*ssa.Function), args, bs, pos)
	}
	fv := ex.val(fr, c.Value)
	if fn, ok := ex.closureFn[fv.Term()]; ok {
		return ex.callStatic(fr, st, fn, args, ex.closures[fv.Term()], pos)
	}
	return ex.abstractCall(fr, st, c, fv, args, pos)
}

func inRepo(fn *ssa.Function) bool {
	p := fn.Pkg
	if p == nil && fn.Parent() != nil {
		p = fn.Parent().Pkg
	}
	if p == nil {
		// synthetic wrappers / instantiations
		if o := fn.Origin(); o != nil && o.Pkg != nil {
			p = o.Pkg
		}
	}
	if p == nil {
		return false
	}
	return strings.HasPrefix(p.Pkg.Path(), "github.com/pion/interceptor")
}

var inlineExternal = map[string]bool{
	"(encoding/binary.bigEndian).Uint16":    true,
	"(encoding/binary.bigEndian).Uint32":    true,
	"(encoding/binary.bigEndian).Uint64":    true,
	"(encoding/binary.bigEndian).PutUint16": true,
	"(encoding/binary.bigEndian).PutUint32": true,
	"(encoding/binary.bigEndian).PutUint64": true,
	"(time.Duration).Seconds":               true,
	"(time.Duration).Milliseconds":          true,
	"(time.Duration).Microseconds":          true,
	"(time.Duration).Nanoseconds":           true,
	"(*container/list.List).Len":            true,
}

func (ex *Exec) callStatic(fr *Frame, st *State, fn *ssa.Function, args []Val, bindings []Val, pos token.Pos) []Val {
	name := fn.String()
	if h, ok := trustedSpecs[name]; ok {
		ex.trustedUsed[name] = true
		return h(ex, fr, st, fn, args, pos)
	}
	if fn.Synthetic != "" && len(fn.Blocks) > 0 && (strings.HasPrefix(fn.Synthetic, "wrapper") || strings.HasPrefix(fn.Synthetic, "bound method") || strings.HasPrefix(fn.Synthetic, "thunk")) {
		return ex.inline(fr, st, fn, args, bindings, pos)
	}
	if fc := ex.ld.contractFor(fn); fc != nil && !fc.Inline {
		if fc.Trusted {
			if r := fc.Opts["trusted_reason"]; r != "" {
				ex.trustedUsed["assumed contract: "+fnKey(fn)+" ("+r+")"] = true
			} else {
				ex.trustedUsed["assumed contract (specs/): "+fn.String()] = true
			}
		}
		return ex.callContract(fr, st, fn, fc, args, pos)
	}
	if len(fn.Blocks) > 0 && (inRepo(fn) || inlineExternal[name]) && fr.depth < ex.opts.InlineMax && !ex.onStack(fr, fn) {
		return ex.inline(fr, st, fn, args, bindings, pos)
	}
	return ex.havocCall(fr, st, fn, args, pos)
}

func (ex *Exec) onStack(fr *Frame, fn *ssa.Function) bool {
	for f := fr; f != nil; f = f.parent {
		if f.fn == fn {
			return true
		}
	}
	return false
}

func (ex *Exec) inline(fr *Frame, st *State, fn *ssa.Function, args []Val, bindings []Val, pos token.Pos) []Val {
	nf := ex.newFrame(fn, fr)
	nf.free = bindings
	short := fn.Name()
	nf.label = fr.label + short + "/"
	if len(args) != len(fn.Params) {
		panic(fmt.Sprintf("inline %s: %d args for %d params", fn, len(args), len(fn.Params)))
	}
	for i, p := range fn.Params {
		nf.regs[p] = args[i]
	}
	m, rs := ex.execFunc(nf, st)
	*st = *m
	return rs
}

// havocCall: unknown callee: fresh results, everything reachable from the arguments havoced.
func (ex *Exec) havocCall(fr *Frame, st *State, fn *ssa.Function, args []Val, pos token.Pos) []Val {
	ex.havocCalls[fn.String()] = true
	for _, a := range args {
		ex.havocReachable(st, a, 0)
	}
	return ex.freshResults(st, fn.Signature, "ret_"+fn.Name())
}

func (ex *Exec) freshResults(st *State, sig *types.Signature, prefix string) []Val {
	var out []Val
	res := sig.Results()
	for i := 0; i < res.Len(); i++ {
		v := freshVal(res.At(i).Type(), prefix)
		ex.bumpAlloc(st)
		ex.refFacts(st, v)
		out = append(out, v)
	}
	return out
}

// bumpAlloc: an unknown callee may have allocated.
func (ex *Exec) bumpAlloc(st *State) {
	old := st.alloc()
	nv := FreshVar("alloc", IntS)
	ex.assume(st, IntLe(old, nv))
	st.set(allocKey, nv)
}

func (ex *Exec) havocReachable(st *State, v Val, depth int) {
	if depth > 2 || v.Const != nil {
		return
	}
	if v.Loc != nil {
		st.store(v.Loc, freshVal(v.Loc.T, "hv"))
		return
	}
	switch u := v.T.Underlying().(type) {
	case *types.Pointer:
		loc := ex.locOf(v)
		fv := freshVal(loc.T, "hv")
		st.store(loc, fv)
	case *types.Slice:
		el := layoutOf(u.Elem())
		for j, lf := range el.Leaves {
			_, k, cur := st.memInner(u.Elem(), j, sliceArr(v))
			st.set(k, Store(cur, sliceArr(v), FreshVar("hvmem", ArrS(BVS(64), lf.S))))
		}
	case *types.Map:
		ex.havocMap(st, v)
	case *types.Struct:
		l := layoutOf(v.T)
		for i := range l.Fields {
			ex.havocReachable(st, structField(v, i), depth+1)
		}
	}
}

// havocScalars gives the scalar (non-reference) contents reachable from v arbitrary values and keeps the reference
// structure (pointers, slice headers, interfaces): the model of a recycled object.
func (ex *Exec) havocScalars(st *State, v Val, depth int) {
	if depth > 3 || v.Const != nil {
		return
	}
	switch u := v.T.Underlying().(type) {
	case *types.Pointer:
		loc := ex.locOf(v)
		cur := st.load(loc)
		l := layoutOf(loc.T)
		nv := Val{T: cur.T, L: append([]*Term{}, cur.L...)}
		for i, lf := range l.Leaves {
			if lf.Kind == LScalar && lf.Lift == 0 {
				nv.L[i] = FreshVar("hv", lf.S)
			}
		}
		st.store(loc, nv)
		ex.havocScalars(st, nv, depth+1)
	case *types.Slice:
		el := layoutOf(u.Elem())
		for j, lf := range el.Leaves {
			if lf.Kind != LScalar || lf.Lift > 0 {
				continue
			}
			_, k, cur := st.memInner(u.Elem(), j, sliceArr(v))
			st.set(k, Store(cur, sliceArr(v), FreshVar("hvmem", ArrS(BVS(64), lf.S))))
		}
	case *types.Struct:
		l := layoutOf(v.T)
		for i := range l.Fields {
			ex.havocScalars(st, structField(v, i), depth+1)
		}
	}
}

func (ex *Exec) havocMap(st *State, m Val) {
	mi := mapKeys(m.T)
	st.set(mi.dom, Store(st.get(mi.dom, mi.domSort()), m.Term(), FreshVar("hvdom", nestSort(mi.ks, BoolS))))
	st.set(mi.ln, Store(st.get(mi.ln, ArrS(IntS, BVS(64))), m.Term(), FreshVar("hvlen", BVS(64))))
	for j, k := range mi.vals {
		s := mi.vl.Leaves[j].S
		st.set(k, Store(st.get(k, mi.valSort(j)), m.Term(), FreshVar("hvval", nestSort(mi.ks, s))))
	}
}

// debugNames: the source-level variable a value is bound to (from go/ssa DebugRef instructions), filled lazily per function.
var (
	debugNames   = map[ssa.Value]string{}
	debugNamesOf = map[*ssa.Function]bool{}
	debugNamesMu sync.Mutex
)

func debugNameOf(v ssa.Value) string {
	in, ok := v.(ssa.Instruction)
	if !ok || in.Parent() == nil {
		return ""
	}
	fn := in.Parent()
	debugNamesMu.Lock()
	defer debugNamesMu.Unlock()
	if !debugNamesOf[fn] {
		debugNamesOf[fn] = true
		for _, b := range fn.Blocks {
			for _, ins := range b.Instrs {
				if d, ok := ins.(*ssa.DebugRef); ok && !d.IsAddr {
					if id, ok := d.Expr.(*ast.Ident); ok {
						if _, seen := debugNames[d.X]; !seen {
							debugNames[d.X] = id.Name
						}
					}
				}
			}
		}
	}
	return debugNames[v]
}

func sourceName(v ssa.Value) string {
	if _, isU := v.(*ssa.UnOp); isU {
		// a loaded value bound to a variable (e.g. the element variable of a range loop)
		if x := v.(*ssa.UnOp); x.Op == token.MUL {
			if _, isIdx := x.X.(*ssa.IndexAddr); isIdx {
				if n := debugNameOf(v); n != "" {
					return n
				}
			}
		}
	}
	switch x := v.(type) {
	case *ssa.FreeVar:
		return x.Name()
	case *ssa.Parameter:
		return x.Name()
	case *ssa.UnOp:
		if x.Op == token.MUL {
			return sourceName(x.X)
		}
	case *ssa.FieldAddr:
		st := x.X.Type().Underlying().(*types.Pointer).Elem().Underlying().(*types.Struct)
		return sourceName(x.X) + "." + st.Field(x.Field).Name()
	case *ssa.Field:
		st := x.X.Type().Underlying().(*types.Struct)
		return sourceName(x.X) + "." + st.Field(x.Field).Name()
	case *ssa.Extract:
		return sourceName(x.Tuple) + fmt.Sprintf("#%d", x.Index)
	case *ssa.Global:
		return x.Name()
	case *ssa.MakeInterface:
		return sourceName(x.X)
	case *ssa.ChangeInterface:
		return sourceName(x.X)
	case *ssa.Phi:
		return x.Comment
	case *ssa.Lookup:
		return sourceName(x.X) + "[]"
	case *ssa.Alloc:
		return x.Comment
	case *ssa.Call:
		return calleeName(x.Common()) + "()"
	}
	return v.Name()
}

// abstractCall: call through an interface or function value whose target is unknown.
func (ex *Exec) abstractCall(fr *Frame, st *State, c *ssa.CallCommon, recv Val, args []Val, pos token.Pos) []Val {
	key := sourceName(c.Value)
	if c.IsInvoke() {
		key += "." + c.Method.Name()
		// logging is pure
		if n, ok := types.Unalias(c.Value.Type()).(*types.Named); ok && n.Obj().Pkg() != nil &&
			(strings.HasSuffix(n.Obj().Pkg().Path(), "pion/logging") || n.Obj().Pkg().Path() == "log/slog") {
			ex.trustedUsed["logging is pure: "+n.Obj().Name()] = true
			return ex.freshResults(st, c.Signature(), "log")
		}
	}
	rec := &CallRec{Guard: st.PC(), Key: key, Recv: recv, Args: args, Pre: st.clone(), Seq: len(ex.callLog), Pos: pos}
	ex.callLog = append(ex.callLog, rec)
	for _, a := range args {
		ex.havocReachable(st, a, 0)
	}
	rec.Results = ex.freshResults(st, c.Signature(), "ret_"+sanitize(key))
	if c.IsInvoke() {
		if fc := ex.ld.ifaceContract(c.Value.Type(), c.Method.Name()); fc != nil && fc.Opts["functional"] == "true" {
			rec.Results = ex.ifaceFunctional(c.Value.Type(), c.Method.Name(), c.Signature(), recv, args)
		}
		if fc := ex.ld.ifaceContract(c.Value.Type(), c.Method.Name()); fc != nil {
			env := &Env{ex: ex, st: st, old: rec.Pre, vars: map[string]Val{}, results: rec.Results, pkg: c.Method.Pkg()}
			sig := c.Signature()
			for i := 0; i < sig.Params().Len() && i < len(args); i++ {
				if n := sig.Params().At(i).Name(); n != "" && n != "_" {
					env.vars[n] = args[i]
				}
				env.vars[fmt.Sprintf("arg%d", i)] = args[i]
			}
			for i := 0; i < sig.Results().Len(); i++ {
				env.resultNames = append(env.resultNames, sig.Results().At(i).Name())
			}
			for _, e := range fc.Ensures {
				ex.assume(st, ex.evalBool(env, e.E))
			}
			ex.trustedUsed["interface contract: "+fc.Key] = true
		}
	}
	rec.Post = st.clone()
	return rec.Results
}

// ------------------------------------------------------------------ modular calls

func (ex *Exec) calleeEnv(fn *ssa.Function, args []Val, st, old *State) *Env {
	env := &Env{ex: ex, st: st, old: old, vars: map[string]Val{}, pkg: pkgOf(fn)}
	for i, p := range fn.Params {
		env.vars[p.Name()] = args[i]
	}
	return env
}

func pkgOf(fn *ssa.Function) *types.Package {
	for f := fn; f != nil; f = f.Parent() {
		if f.Pkg != nil {
			return f.Pkg.Pkg
		}
		// an instance of a generic function belongs to the package of the generic
		if o := f.Origin(); o != nil && o.Pkg != nil {
			return o.Pkg.Pkg
		}
	}
	return nil
}

func (ex *Exec) callContract(fr *Frame, st *State, fn *ssa.Function, fc *FuncContract, args []Val, pos token.Pos) []Val {
	if !fc.Trusted {
		ex.trustedUsed["contract:"+fnKey(fn)] = true
	}
	env := ex.calleeEnv(fn, args, st, st)
	for _, r := range fc.Requires {
		g := ex.evalBool(env, r.E)
		ex.oblige(fr, st, "pre", "pre@"+fnKey(fn)+":"+r.Label+"["+ex.srcAt(pos)+"]", pos, r.Src, g)
	}
	pre := st.clone()
	// havoc the modifies set
	for _, m := range fc.Modifies {
		if m.Base != nil && !ex.canEval(env, m.Base) {
			continue // target reachable only from the result (a fresh object)
		}
		ex.havocTarget(env, st, m)
	}
	if !fc.Pure {
		ex.bumpAlloc(st)
	}
	results := ex.freshResults(st, fn.Signature, "ret_"+fn.Name())
	if fc.Opts["functional"] == "true" {
		var leaves []*Term
		okF := true
		for _, a := range args {
			if a.Loc != nil {
				okF = false
			}
			leaves = append(leaves, a.L...)
		}
		if okF {
			for i := range results {
				for j := range results[i].L {
					results[i].L[j] = App(fmt.Sprintf("fn_%s_%d_%d", sanitize(fnKey(fn)), i, j), results[i].L[j].S, leaves...)
				}
			}
		}
	}
	post := &Env{ex: ex, st: st, old: pre, vars: env.vars, pkg: env.pkg, results: results, resultNames: resultNames(fn)}
	ex.applyGhost(post, fc, st)
	for _, e := range fc.Ensures {
		if mentionsCallLog(e.E) {
			continue // clauses about the callee's own outgoing calls are local to its verification
		}
		if e.Assumed {
			ex.trustedUsed["assumed postcondition (not proved of the body): "+fnKey(fn)+" "+e.Label] = true
		}
		ex.assume(st, ex.evalBool(post, e.E))
	}
	ex.callLog = append(ex.callLog, &CallRec{Guard: pre.PC(), Key: fn.Name(), Args: args, Results: results, Pre: pre, Post: st.clone(), Seq: len(ex.callLog), Pos: pos})
	return results
}

func resultNames(fn *ssa.Function) []string {
	var out []string
	res := fn.Signature.Results()
	for i := 0; i < res.Len(); i++ {
		out = append(out, res.At(i).Name())
	}
	return out
}

// havocTarget havocs one modifies target, evaluated in env (pre-state).
func (ex *Exec) havocTarget(env *Env, st *State, m *ModTarget) {
	switch m.Kind {
	case ModAll:
		ex.modAllCount++
		for k, s := range st.sorts {
			if k == allocKey {
				continue
			}
			st.set(k, FreshVar("hv_"+k, s))
		}
	case ModAllMem:
		for _, k := range ex.memKeys(env, m) {
			st.set(k.key, FreshVar("hv_"+k.key, k.sort))
			ex.noteWholeKey(k.key)
		}
	case ModAllOfType:
		for _, k := range ex.typeKeys(env, m) {
			st.set(k.key, FreshVar("hv_"+k.key, k.sort))
			ex.noteWholeKey(k.key)
		}
	case ModField:
		loc := ex.fieldLocE(env, m.Base, m.Field)
		st.store(loc, freshVal(loc.T, "mod_"+m.Field))
	case ModAllFields:
		base := ex.eval(env, m.Base)
		loc := ex.locOf(base)
		st.store(loc, freshVal(loc.T, "mod"))
	case ModWindow:
		base := ex.eval(env, m.Base)
		sl, ok := base.T.Underlying().(*types.Slice)
		if !ok {
			panic(unsupported("modifies window of a non-slice: " + m.Src))
		}
		el := layoutOf(sl.Elem())
		off, ln := sliceOff(base), sliceLen(base)
		for j, lf := range el.Leaves {
			inner, k, cur := st.memInner(sl.Elem(), j, sliceArr(base))
			var nv *Term
			if ln.Op == "bvconst" && ln.BigVal().Int64() <= 16 {
				nv = inner
				for q := int64(0); q < ln.BigVal().Int64(); q++ {
					nv = Store(nv, BVBin("bvadd", off, BVI(q, 64)), FreshVar("hvwin", lf.S))
				}
			} else {
				nv = FreshVar("hvwin", ArrS(BVS(64), lf.S))
				i := BoundVar("wi", BVS(64))
				outside := Or(BVCmp("bvslt", i, off), BVCmp("bvsge", i, BVBin("bvadd", off, ln)))
				ex.assume(st, Forall([]*Term{i}, Implies(outside, Eq(Select(nv, i), Select(inner, i)))))
			}
			st.set(k, Store(cur, sliceArr(base), nv))
		}
	case ModElems:
		base := ex.eval(env, m.Base)
		switch base.T.Underlying().(type) {
		case *types.Slice:
			ex.havocReachable(st, base, 0)
		case *types.Map:
			ex.havocMap(st, base)
		case *types.Pointer:
			ex.havocReachable(st, base, 0)
		default:
			panic(unsupported("modifies target " + m.Src))
		}
	}
}

// fieldLocE: location of baseExpr.field where baseExpr is a pointer or itself a field of an addressable struct.
func (ex *Exec) fieldLocE(env *Env, baseExpr Expr, field string) *Loc {
	var loc *Loc
	if sel, ok := baseExpr.(*ESel); ok {
		// try pointer value first
		bv := ex.eval(env, baseExpr)
		if _, isPtr := bv.T.Underlying().(*types.Pointer); isPtr {
			loc = ex.locOf(bv)
		} else {
			loc = ex.fieldLocE(env, sel.X, sel.Sel)
		}
	} else {
		bv := ex.eval(env, baseExpr)
		if _, isPtr := bv.T.Underlying().(*types.Pointer); !isPtr {
			panic(unsupported("field of non-addressable value in modifies"))
		}
		loc = ex.locOf(bv)
	}
	return subFieldLoc(loc, field)
}

func subFieldLoc(loc *Loc, field string) *Loc {
	lo := layoutOf(loc.T)
	for _, f := range lo.Fields {
		if f.Name == field {
			return offLoc(loc, f.Off, f.T)
		}
	}
	panic(fmt.Sprintf("no field %s in %s", field, loc.T))
}

func (ex *Exec) fieldLoc(base Val, field string) *Loc {
	var loc *Loc
	if _, ok := base.T.Underlying().(*types.Pointer); ok {
		loc = ex.locOf(base)
	} else {
		panic(unsupported("field of non-pointer in modifies"))
	}
	lo := layoutOf(loc.T)
	for _, f := range lo.Fields {
		if f.Name == field {
			return offLoc(loc, f.Off, f.T)
		}
	}
	panic(fmt.Sprintf("no field %s in %s", field, loc.T))
}

// ------------------------------------------------------------------ builtins

func (ex *Exec) builtin(fr *Frame, st *State, b *ssa.Builtin, c *ssa.CallCommon, args []Val, pos token.Pos) []Val {
	rt := c.Signature().Results()
	var rtype types.Type
	if rt.Len() > 0 {
		rtype = rt.At(0).Type()
	}
	switch b.Name() {
	case "len":
		a := args[0]
		switch u := a.T.Underlying().(type) {
		case *types.Slice:
			return []Val{scalar(rtype, sliceLen(a))}
		case *types.Basic:
			return []Val{scalar(rtype, ex.strLen(st, a.Term()))}
		case *types.Map:
			l := ex.mapLen(st, a)
			ex.assume(st, BVCmp("bvsle", BVI(0, 64), l))
			// the length is zero exactly when no key is present
			{
				mi := mapKeys(a.T)
				var bs []*Term
				for i, srt := range mi.ks {
					bs = append(bs, BoundVar(fmt.Sprintf("lk%d", i), srt))
				}
				dom := Select(st.get(mi.dom, mi.domSort()), a.Term())
				ex.assume(st, Implies(Eq(l, BVI(0, 64)), Forall(bs, Not(selectN(dom, bs)))))
				ex.assume(st, Implies(Not(Eq(l, BVI(0, 64))), Exists(bs, selectN(dom, bs))))
			}
			return []Val{scalar(rtype, Ite(Eq(a.Term(), IntC(0)), BVI(0, 64), l))}
		case *types.Array:
			return []Val{scalar(rtype, BVI(u.Len(), 64))}
		case *types.Pointer:
			return []Val{scalar(rtype, BVI(u.Elem().Underlying().(*types.Array).Len(), 64))}
		case *types.Chan:
			l := FreshVar("chanlen", BVS(64))
			ex.assume(st, BVCmp("bvsle", BVI(0, 64), l))
			return []Val{scalar(rtype, l)}
		}
	case "cap":
		a := args[0]
		switch u := a.T.Underlying().(type) {
		case *types.Slice:
			return []Val{scalar(rtype, sliceCap(a))}
		case *types.Array:
			return []Val{scalar(rtype, BVI(u.Len(), 64))}
		case *types.Chan:
			return []Val{scalar(rtype, App("chancap", BVS(64), a.Term()))}
		}
	case "append":
		return []Val{ex.appendOp(fr, st, args[0], args[1])}
	case "copy":
		return []Val{scalar(rtype, ex.copyOp(fr, st, args[0], args[1], pos))}
	case "delete":
		ex.mapDelete(st, args[0], ex.keyVal(st, args[1], args[0].T).L)
		return nil
	case "close":
		ch := args[0].Term()
		cl := st.get("C:closed", ArrS(IntS, BoolS))
		src := ex.srcAt(pos)
		ex.oblige(fr, st, "safety", "safety:close["+src+"]", pos, src, And(Not(Select(cl, ch)), Not(Eq(ch, IntC(0)))))
		st.set("C:closed", Store(cl, ch, True))
		return nil
	case "min", "max":
		w, signed, ok := isIntType(args[0].T)
		r := args[0]
		for _, a := range args[1:] {
			var lt *Term
			if ok {
				op := "bvult"
				if signed {
					op = "bvslt"
				}
				_ = w
				lt = BVCmp(op, a.Term(), r.Term())
			} else {
				lt = fop("flt", BoolS, a.Term(), r.Term())
			}
			if b.Name() == "max" {
				lt = Not(lt)
				if ok {
					op := "bvugt"
					if signed {
						op = "bvsgt"
					}
					lt = BVCmp(op, a.Term(), r.Term())
				}
			}
			r = iteVal(lt, a, r)
		}
		return []Val{r}
	case "print", "println":
		return nil
	case "panic":
		ex.oblige(fr, st, "safety", "safety:panic["+ex.srcAt(pos)+"]", pos, ex.srcAt(pos), False)
		st.assumePC(False)
		return nil
	case "recover":
		return []Val{zeroVal(rtype)}
	case "ssa:wrapnilchk":
		return []Val{args[0]}
	}
	panic(unsupported("builtin " + b.Name() + " on " + fmt.Sprint(c.Args)))
}

// copyRange returns the inner array dst' equal to dst except dst'[doff+k] = src[soff+k] for 0<=k<n.
func (ex *Exec) copyRange(st *State, dst, src *Term, doff, soff, n *Term) *Term {
	if n.Op == "bvconst" && n.BigVal().Int64() <= 16 {
		r := dst
		// read all sources first (overlap semantics of copy: as if via a temporary)
		cnt := int(n.BigVal().Int64())
		vals := make([]*Term, cnt)
		for k := 0; k < cnt; k++ {
			vals[k] = Select(src, BVBin("bvadd", soff, BVI(int64(k), 64)))
		}
		for k := 0; k < cnt; k++ {
			r = Store(r, BVBin("bvadd", doff, BVI(int64(k), 64)), vals[k])
		}
		return r
	}
	nv := FreshVar("copied", dst.S)
	i := BoundVar("ci", BVS(64))
	inr := And(BVCmp("bvsle", doff, i), BVCmp("bvslt", i, BVBin("bvadd", doff, n)))
	body := Eq(Select(nv, i), Ite(inr, Select(src, BVBin("bvadd", BVBin("bvsub", i, doff), soff)), Select(dst, i)))
	ex.assume(st, Forall([]*Term{i}, body))
	return nv
}

func (ex *Exec) copyOp(fr *Frame, st *State, dst, src Val, pos token.Pos) *Term {
	var n *Term
	if isStringType(src.T) {
		// copy(bytes, string): contents opaque
		sl := ex.strLen(st, src.Term())
		n = Ite(BVCmp("bvslt", sliceLen(dst), sl), sliceLen(dst), sl)
		ex.havocReachable(st, dst, 0)
		return n
	}
	n = Ite(BVCmp("bvslt", sliceLen(dst), sliceLen(src)), sliceLen(dst), sliceLen(src))
	et := elemType(dst.T)
	ex.ownWrite(fr, st, dst, pos)
	el := layoutOf(et)
	for j := range el.Leaves {
		srcInner, _, _ := st.memInner(et, j, sliceArr(src))
		dstInner, key, cur := st.memInner(et, j, sliceArr(dst))
		st.set(key, Store(cur, sliceArr(dst), ex.copyRange(st, dstInner, srcInner, sliceOff(dst), sliceOff(src), n)))
	}
	return n
}

func (ex *Exec) appendOp(fr *Frame, st *State, s, t Val) Val {
	if isStringType(t.T) {
		panic(unsupported("append(bytes, string...)"))
	}
	et := elemType(s.T)
	if t.Const != nil || len(t.L) == 0 {
		return s
	}
	n := sliceLen(t)
	newLen := BVBin("bvadd", sliceLen(s), n)
	fits := BVCmp("bvsle", newLen, sliceCap(s))
	ex.splitHints = append(ex.splitHints, fits) // a natural case distinction for the solvers (in place / reallocated)
	el := layoutOf(et)
	id := st.newRef()
	// in-place variant
	inPlace := st.clone()
	for j := range el.Leaves {
		srcInner, _, _ := inPlace.memInner(et, j, sliceArr(t))
		dstInner, key, cur := inPlace.memInner(et, j, sliceArr(s))
		inPlace.set(key, Store(cur, sliceArr(s), ex.copyRange(inPlace, dstInner, srcInner, BVBin("bvadd", sliceOff(s), sliceLen(s)), sliceOff(t), n)))
	}
	// reallocating variant
	re := st.clone()
	ncap := FreshVar("newcap", BVS(64))
	ex.assume(st, And(BVCmp("bvsle", newLen, ncap), BVCmp("bvsle", ncap, BVI(1<<40, 64))))
	for j, lf := range el.Leaves {
		oldInner, _, _ := re.memInner(et, j, sliceArr(s))
		srcInner, _, _ := re.memInner(et, j, sliceArr(t))
		fresh := ConstArr(ArrS(BVS(64), lf.S), zeroOfSort(lf.S))
		a := ex.copyRange(re, fresh, oldInner, BVI(0, 64), sliceOff(s), sliceLen(s))
		a = ex.copyRange(re, a, srcInner, sliceLen(s), sliceOff(t), n)
		_, key, cur := re.memInner(et, j, id)
		re.set(key, Store(cur, id, a))
	}
	// s == nil with nothing to append stays nil only if t empty; ignore (len 0 slices are equivalent here)
	inPlace.assumePC(fits)
	re.assumePC(Not(fits))
	m, conds := mergeStates([]*State{inPlace, re})
	// restore the caller's pc (merge appended the disjunction, which is implied)
	m.pc = st.pc
	*st = *m
	_ = conds
	r1 := mkSlice(s.T, sliceArr(s), sliceOff(s), newLen, sliceCap(s))
	r2 := mkSlice(s.T, id, BVI(0, 64), newLen, ncap)
	return iteVal(fits, r1, r2)
}

func mentionsCallLog(e Expr) bool {
	found := false
	var rec func(e Expr)
	rec = func(e Expr) {
		switch x := e.(type) {
		case *ECall:
			if id, ok := x.Fun.(*EIdent); ok {
				switch id.Name {
				case "calls", "callarg", "callres", "atcall", "aftercall", "isclosure", "binding":
					found = true
				}
			}
			rec(x.Fun)
			for _, a := range x.Args {
				rec(a)
			}
		case *EUnary:
			rec(x.X)
		case *EBinary:
			rec(x.X)
			rec(x.Y)
		case *EIndex:
			rec(x.X)
			rec(x.I)
		case *ESlice:
			rec(x.X)
		case *ESel:
			rec(x.X)
		case *EQuant:
			rec(x.Body)
		case *EOld:
			rec(x.X)
		}
	}
	rec(e)
	return found
}

type keySort struct {
	key  string
	sort *Sort
}

// typeKeys lists the heap keys of `all T.f` / `all T.*`.
func (ex *Exec) typeKeys(env *Env, m *ModTarget) []keySort {
	t := ex.ld.resolveType(env.pkg, m.TypeName)
	lo := layoutOf(t)
	var out []keySort
	add := func(j int) {
		lf := lo.Leaves[j]
		out = append(out, keySort{heapKey(t, j, lf), ArrS(IntS, lf.S)})
	}
	if m.Field == "*" {
		for j := range lo.Leaves {
			add(j)
		}
		return out
	}
	for _, f := range lo.Fields {
		if f.Name == m.Field {
			for j := f.Off; j < f.Off+f.N; j++ {
				add(j)
			}
			return out
		}
	}
	sfail("no field %s in %s", m.Field, m.TypeName)
	return nil
}

func (ex *Exec) memKeys(env *Env, m *ModTarget) []keySort {
	t := ex.ld.resolveType(env.pkg, m.TypeName)
	if _, isMap := t.Underlying().(*types.Map); isMap {
		// every map of this type: domain, length and values
		mi := mapKeys(t)
		out := []keySort{{mi.dom, mi.domSort()}, {mi.ln, ArrS(IntS, BVS(64))}}
		for j, k := range mi.vals {
			out = append(out, keySort{k, mi.valSort(j)})
		}
		return out
	}
	lo := layoutOf(t)
	var out []keySort
	for j, lf := range lo.Leaves {
		out = append(out, keySort{memKey(t, j, lf), ArrS(IntS, ArrS(BVS(64), lf.S))})
	}
	return out
}

// ifaceFunctional: results of a `functional` interface method are uninterpreted functions of the receiver and arguments.
func (ex *Exec) ifaceFunctional(it types.Type, method string, sig *types.Signature, recv Val, args []Val) []Val {
	var leaves []*Term
	leaves = append(leaves, recv.L...)
	for _, a := range args {
		leaves = append(leaves, a.L...)
	}
	var out []Val
	for i := 0; i < sig.Results().Len(); i++ {
		t := sig.Results().At(i).Type()
		lo := layoutOf(t)
		v := Val{T: t}
		for j, lf := range lo.Leaves {
			v.L = append(v.L, App(fmt.Sprintf("ifn_%s_%s_%d_%d", sanitize(normKey(it)), method, i, j), lf.S, leaves...))
		}
		out = append(out, v)
	}
	ex.trustedUsed["interface method treated as a function of its receiver: "+normKey(it)+"."+method] = true
	return out
}

// offLoc: the location of a part (leaf offset off, type t) of loc, following the alternative location too.
func offLoc(loc *Loc, off int, t types.Type) *Loc {
	nl := *loc
	nl.Off += off
	nl.T = t
	if loc.Alt != nil {
		nl.Alt = offLoc(loc.Alt, off, t)
	}
	return &nl
}

func (ex *Exec) noteWholeKey(k string) {
	if ex.calleeWholeKeys == nil {
		ex.calleeWholeKeys = map[string]bool{}
	}
	ex.calleeWholeKeys[k] = true
}
