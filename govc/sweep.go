package main

// govc sweep: run the executor over every in-repo function (no solving) to report what is unsupported.

import (
	"fmt"
	"sort"
	"strings"
)

func cmdSweep(args []string) {
	pat := "./..."
	if len(args) > 0 {
		pat = args[0]
	}
	ld, err := loadRepo(repoRoot, strings.Split(pat, ","))
	if err != nil {
		fmt.Println(err)
		return
	}
	var keys []string
	for k := range ld.funcIndex {
		keys = append(keys, k)
	}
	sort.Strings(keys)
	unsup := map[string][]string{}
	havoc := map[string]int{}
	ok, nobs := 0, 0
	for _, k := range keys {
		fn := ld.funcIndex[k]
		if len(fn.Blocks) == 0 || strings.Contains(k, "/mock.") || strings.Contains(k, "internal/test.") || strings.HasPrefix(k, "examples") || strings.Contains(k, "$bound") || strings.Contains(k, "$thunk") {
			continue
		}
		if fn.Synthetic != "" {
			continue
		}
		var res *FuncResult
		func() {
			defer func() {
				if r := recover(); r != nil {
					res = &FuncResult{Fn: k, Unsupported: fmt.Sprint("PANIC: ", r)}
				}
			}()
			res = ld.verifyFunc(fn)
		}()
		if res.Unsupported != "" {
			unsup[res.Unsupported] = append(unsup[res.Unsupported], k)
			continue
		}
		ok++
		nobs += len(res.Obs)
		for _, h := range res.Havoced {
			havoc[h]++
		}
	}
	fmt.Printf("executed %d functions, %d obligations\n", ok, nobs)
	var us []string
	for u := range unsup {
		us = append(us, u)
	}
	sort.Slice(us, func(i, j int) bool { return len(unsup[us[i]]) > len(unsup[us[j]]) })
	for _, u := range us {
		fmt.Printf("UNSUPPORTED (%d): %s\n    %s\n", len(unsup[u]), u, strings.Join(unsup[u], "\n    "))
	}
	var hs []string
	for h := range havoc {
		hs = append(hs, h)
	}
	sort.Slice(hs, func(i, j int) bool { return havoc[hs[i]] > havoc[hs[j]] })
	fmt.Println("havoced external calls:")
	for _, h := range hs {
		fmt.Printf("  %3d %s\n", havoc[h], h)
	}
}
