package main

// Symbolic state: path condition + Burstall-Bornat heap + slice memories + maps.

import (
	"fmt"
	"go/types"
	"regexp"
	"sort"
)

type State struct {
	pc    []*Term
	h     map[string]*Term // every versioned piece of global state: heap fields, memories, maps, alloc counter, ghost
	sorts map[string]*Sort // shared, append-only
	track map[string]*Sort // when non-nil: records the state components read (for heap-dependent spec functions)
}

func newState() *State {
	return &State{h: map[string]*Term{}, sorts: map[string]*Sort{}}
}

func (st *State) clone() *State {
	n := &State{pc: append([]*Term{}, st.pc...), h: make(map[string]*Term, len(st.h)), sorts: st.sorts, track: st.track}
	for k, v := range st.h {
		n.h[k] = v
	}
	return n
}

func (st *State) PC() *Term { return And(st.pc...) }

func (st *State) assumePC(c *Term) {
	if c.Op == "and" {
		for _, a := range c.Args {
			st.assumePC(a)
		}
		return
	}
	if c.Op == "true" {
		return
	}
	st.pc = append(st.pc, c)
}

func (st *State) infeasible() bool {
	for _, c := range st.pc {
		if c.Op == "false" {
			return true
		}
	}
	return false
}

// get returns the current term of a state component, the entry symbol if never written.
func (st *State) get(key string, s *Sort) *Term {
	if st.track != nil {
		st.track[key] = s
	}
	if t, ok := st.h[key]; ok {
		return t
	}
	if old, ok := st.sorts[key]; ok && old != s {
		panic("state key sort clash: " + key)
	}
	st.sorts[key] = s
	return Var(key+"@0", s)
}

func (st *State) set(key string, t *Term) {
	if _, ok := st.sorts[key]; !ok {
		st.sorts[key] = t.S
	}
	st.h[key] = t
}

var reByte = regexp.MustCompile(`\bbyte\b`)
var reRune = regexp.MustCompile(`\brune\b`)

func normKey(t types.Type) string {
	s := shortType(t)
	s = reByte.ReplaceAllString(s, "uint8")
	s = reRune.ReplaceAllString(s, "int32")
	return s
}

func heapKey(root types.Type, leaf int, lf Leaf) string {
	return fmt.Sprintf("H:%s#%d%s", normKey(root), leaf, lf.Path)
}

func memKey(elem types.Type, leaf int, lf Leaf) string {
	return fmt.Sprintf("M:%s#%d%s", normKey(elem), leaf, lf.Path)
}

const allocKey = "alloc"

func (st *State) alloc() *Term { return st.get(allocKey, IntS) }

// newRef allocates a fresh reference, distinct from every earlier one.
func (st *State) newRef() *Term {
	a := IntAdd(st.alloc(), 1)
	st.set(allocKey, a)
	return a
}

func (st *State) leafBase(loc *Loc, j int) (key string, lf Leaf, cur *Term) {
	rl := layoutOf(loc.RootT)
	lf = rl.Leaves[loc.Off+j]
	if loc.Mem {
		key = memKey(loc.RootT, loc.Off+j, lf)
		cur = st.get(key, ArrS(IntS, ArrS(BVS(64), lf.S)))
	} else {
		key = heapKey(loc.RootT, loc.Off+j, lf)
		cur = st.get(key, ArrS(IntS, lf.S))
	}
	return
}

func (st *State) load(loc *Loc) Val {
	if loc.Alt != nil {
		main := *loc
		main.Alt, main.Cond = nil, nil
		return iteVal(loc.Cond, st.load(loc.Alt), st.load(&main))
	}
	n := len(layoutOf(loc.T).Leaves)
	if loc.Mem && loc.EIdx == nil && n != len(layoutOf(loc.RootT).Leaves) {
		panic("whole-array loc leaf mismatch")
	}
	v := Val{T: loc.T, L: make([]*Term, n)}
	for j := 0; j < n; j++ {
		_, _, cur := st.leafBase(loc, j)
		t := Select(cur, loc.Ref)
		if loc.Mem && loc.EIdx != nil {
			t = Select(t, loc.EIdx)
		}
		for _, ix := range loc.Idx {
			t = Select(t, ix)
		}
		v.L[j] = t
	}
	return v
}

func storeNested(a *Term, idx []*Term, v *Term) *Term {
	if len(idx) == 0 {
		return v
	}
	return Store(a, idx[0], storeNested(Select(a, idx[0]), idx[1:], v))
}

func (st *State) store(loc *Loc, v Val) {
	if loc.Alt != nil {
		main := *loc
		main.Alt, main.Cond = nil, nil
		v.Loc = nil
		st.store(loc.Alt, iteVal(loc.Cond, v, st.load(loc.Alt)))
		st.store(&main, iteVal(loc.Cond, st.load(&main), v))
		return
	}
	n := len(layoutOf(loc.T).Leaves)
	if len(v.L) != n {
		panic(fmt.Sprintf("store: %d leaves into %s (%d)", len(v.L), loc.T, n))
	}
	for j := 0; j < n; j++ {
		key, _, cur := st.leafBase(loc, j)
		idx := []*Term{loc.Ref}
		if loc.Mem && loc.EIdx != nil {
			idx = append(idx, loc.EIdx)
		}
		idx = append(idx, loc.Idx...)
		st.set(key, storeNested(cur, idx, v.L[j]))
	}
}

// element i (relative to the slice) of slice value s.
func sliceElemLoc(s Val, i *Term) *Loc {
	et := elemType(s.T)
	return &Loc{Mem: true, RootT: et, Ref: sliceArr(s), EIdx: BVBin("bvadd", sliceOff(s), i), T: et}
}

// memInner returns the inner array (index -> leaf) of memory leaf j for array id.
func (st *State) memInner(elem types.Type, j int, arr *Term) (*Term, string, *Term) {
	lf := layoutOf(elem).Leaves[j]
	key := memKey(elem, j, lf)
	cur := st.get(key, ArrS(IntS, ArrS(BVS(64), lf.S)))
	return Select(cur, arr), key, cur
}

// ---- merging

func commonPrefix(pcs [][]*Term) int {
	n := 0
	for {
		for _, p := range pcs {
			if n >= len(p) || p[n] != pcs[0][n] {
				return n
			}
		}
		if n >= len(pcs[0]) {
			return n
		}
		n++
	}
}

// mergeStates merges mutually exclusive states; returns the merged state and, for each input, the
// condition (relative to the merged pc) selecting it.
func mergeStates(sts []*State) (*State, []*Term) {
	if len(sts) == 1 {
		return sts[0].clone(), []*Term{True}
	}
	pcs := make([][]*Term, len(sts))
	for i, s := range sts {
		pcs[i] = s.pc
	}
	n := commonPrefix(pcs)
	conds := make([]*Term, len(sts))
	for i, s := range sts {
		conds[i] = And(s.pc[n:]...)
	}
	m := &State{pc: append([]*Term{}, sts[0].pc[:n]...), h: map[string]*Term{}, sorts: sts[0].sorts}
	m.assumePCRaw(Or(conds...))
	keys := map[string]bool{}
	for _, s := range sts {
		for k := range s.h {
			keys[k] = true
		}
	}
	ks := make([]string, 0, len(keys))
	for k := range keys {
		ks = append(ks, k)
	}
	sort.Strings(ks)
	for _, k := range ks {
		srt := sts[0].sorts[k]
		vals := make([]*Term, len(sts))
		for i, s := range sts {
			vals[i] = s.get(k, srt)
		}
		m.h[k] = mergeTerms(conds, vals)
	}
	return m, conds
}

func (st *State) assumePCRaw(c *Term) {
	if c.Op == "true" {
		return
	}
	st.pc = append(st.pc, c)
}

func mergeTerms(conds []*Term, vals []*Term) *Term {
	r := vals[len(vals)-1]
	for i := len(vals) - 2; i >= 0; i-- {
		r = Ite(conds[i], vals[i], r)
	}
	return r
}

func mergeVals(conds []*Term, vals []Val) Val {
	r := vals[len(vals)-1]
	for i := len(vals) - 2; i >= 0; i-- {
		r = iteVal(conds[i], vals[i], r)
	}
	return r
}
