package main

// Top-level verification of one function against its contract.

import (
	"fmt"
	"os"

	"go/types"
	"sort"
	"strings"

	"golang.org/x/tools/go/ssa"
)

type FuncResult struct {
	Fn          string
	Obs         []*Obligation
	Unsupported string
	Trusted     []string
	Havoced     []string
	Notes       []string
	ex          *Exec
	entryEnv    *Env
}

func (ld *Loaded) verifyFunc(fn *ssa.Function) (res *FuncResult) {
	res = &FuncResult{Fn: fnKey(fn)}
	ex := newExec(ld, fn)
	res.ex = ex
	defer func() {
		if r := recover(); r != nil {
			switch e := r.(type) {
			case *Unsupported:
				res.Unsupported = e.Msg
			case *specErr:
				res.Unsupported = "contract error: " + e.msg
			default:
				panic(r)
			}
		}
		for k := range ex.trustedUsed {
			res.Trusted = append(res.Trusted, k)
		}
		for k := range ex.havocCalls {
			res.Havoced = append(res.Havoced, k)
		}
		sort.Strings(res.Trusted)
		sort.Strings(res.Havoced)
		res.Notes = ex.notes
	}()
	fc := ld.contractFor(fn)
	if fc == nil {
		fc = &FuncContract{Key: fnKey(fn), Loops: map[int]*LoopContract{}, Opts: map[string]string{}}
	}
	if fc.Opts["nil"] == "check" {
		ex.opts.CheckNil = true
	}
	if fc.Opts["own"] == "check" {
		ex.ownCheck = true
	}
	st := newState()
	fr := ex.newFrame(fn, nil)
	fr.fc = fc
	for i, p := range fn.Params {
		v := namedVal(p.Type(), "p_"+p.Name())
		fr.regs[p] = v
		ex.params[p.Name()] = v
		ex.refFacts(st, v)
		if i == 0 && fn.Signature.Recv() != nil {
			if _, ok := p.Type().Underlying().(*types.Pointer); ok {
				ex.assume(st, And(IntLt(IntC(0), v.L[0])))
				ex.trustedUsed["method receivers are non-nil"] = true
			}
		}
	}
	for _, fv := range fn.FreeVars {
		v := namedVal(fv.Type(), "fv_"+fv.Name())
		fr.free = append(fr.free, v)
		ex.refFacts(st, v)
		if _, ok := fv.Type().Underlying().(*types.Pointer); ok {
			ex.assume(st, IntLt(IntC(0), v.L[0]))
			// captured cells hold well-formed values
			ex.refFacts(st, st.load(ex.locOf(v)))
		}
	}
	// distinct captured cells
	for i := range fr.free {
		for j := i + 1; j < len(fr.free); j++ {
			a, b := fr.free[i], fr.free[j]
			_, pa := a.T.Underlying().(*types.Pointer)
			_, pb := b.T.Underlying().(*types.Pointer)
			if pa && pb && types.Identical(a.T, b.T) {
				ex.assume(st, Not(Eq(a.L[0], b.L[0])))
			}
		}
	}
	ex.assume(st, IntLe(IntC(0), st.alloc()))
	ex.entry = st.clone()
	entryEnv := ex.envAt(fr, st, nil)
	entryEnv.old = ex.entry
	entryEnv.paramsEntry = true
	res.entryEnv = entryEnv
	for _, r := range fc.Requires {
		ex.assume(st, ex.evalBool(entryEnv, r.E))
	}
	for _, u := range fc.Uses {
		l := ld.findLemma(u)
		if l == nil {
			panic(&specErr{"unknown lemma " + u})
		}
		lenv := &Env{ex: ex, st: st, old: st, vars: map[string]Val{}, pkg: ld.pkgByPath(l.Pkg)}
		ex.assume(st, ex.evalBool(lenv, l.E))
	}
	// vacuity guard: the precondition must be satisfiable
	cov := &Obligation{Name: fnKey(fn) + "#cover:entry", Kind: "cover", Fn: fnKey(fn), Cover: true,
		Hyps: append([]*Term{}, ex.assumptions...), ex: ex, st: st}
	ex.obs = append(ex.obs, cov)

	final, results := ex.execFunc(fr, st)
	if !final.infeasible() {
		env := &Env{ex: ex, fr: fr, st: final, old: ex.entry, vars: map[string]Val{}, results: results, resultNames: resultNames(fn), pkg: pkgOf(fn), paramsEntry: true}
		ex.applyGhost(env, fc, final)
		for _, e := range fc.Ensures {
			if e.Assumed {
				ex.trustedUsed["assumed postcondition (not proved of the body): "+fnKey(fn)+" "+e.Label] = true
				continue
			}
			g := ex.evalBool(env, e.E)
			ex.oblige(fr, final, "post", "post:"+e.Label, fn.Pos(), e.Src, g)
			ex.obs[len(ex.obs)-1].results = results
		}
		if fc.HasMod {
			ex.frameObligations(fr, fc, final, entryEnv)
		}
		if len(fc.Ensures) > 0 {
			c := &Obligation{Name: fnKey(fn) + "#cover:return", Kind: "cover", Fn: fnKey(fn), Cover: true,
				Hyps: append(append([]*Term{}, ex.assumptions...), final.pc...), ex: ex, st: final}
			ex.obs = append(ex.obs, c)
		}
	}
	// entry-heap well-formedness: every reference stored anywhere in the heap when the function starts was
	// allocated before (<= alloc@0). Added to every obligation.
	{
		var axioms []*Term
		var keys []string
		for k := range st.sorts {
			keys = append(keys, k)
		}
		sort.Strings(keys)
		a0 := ex.entry.alloc()
		for _, k := range keys {
			srt := st.sorts[k]
			if strings.HasPrefix(k, "V:") && srt.K == KArray {
				// map values that are references: V[m][k1]..[kn] <= alloc@0
				var bs []*Term
				t := Var(k+"@0", srt)
				cur := srt
				for cur.K == KArray && len(bs) < 6 {
					b := BoundVar("wfk", cur.A)
					bs = append(bs, b)
					t = Select(t, b)
					cur = cur.B
				}
				if cur == IntS && bs[0].S == IntS {
					if os.Getenv("GOVC_OLDAXIOM") != "" {
						axioms = append(axioms, Forall(bs, IntLe(t, a0)))
					} else {
						axioms = append(axioms, Forall(bs, Implies(IntLe(bs[0], a0), IntLe(t, a0))))
					}
				}
				continue
			}
			if !(strings.HasPrefix(k, "H:") || strings.HasPrefix(k, "M:")) || srt.K != KArray {
				continue
			}
			v := Var(k+"@0", srt)
			r := BoundVar("wf", IntS)
			// (only for objects that existed at entry: what the entry heap "holds" at an address allocated later
			// is meaningless, and bounding it would contradict facts assumed about recycled pool objects)
			if os.Getenv("GOVC_OLDAXIOM") != "" {
				if srt.B == IntS {
					axioms = append(axioms, Forall([]*Term{r}, IntLe(Select(v, r), a0)))
				} else if srt.B.K == KArray && srt.B.B == IntS && srt.B.A == BVS(64) {
					i := BoundVar("wfi", BVS(64))
					axioms = append(axioms, Forall([]*Term{r, i}, IntLe(Select(Select(v, r), i), a0)))
				}
			} else if srt.B == IntS {
				axioms = append(axioms, Forall([]*Term{r}, Implies(IntLe(r, a0), IntLe(Select(v, r), a0))))
			} else if srt.B.K == KArray && srt.B.B == IntS && srt.B.A == BVS(64) {
				i := BoundVar("wfi", BVS(64))
				axioms = append(axioms, Forall([]*Term{r, i}, Implies(IntLe(r, a0), IntLe(Select(Select(v, r), i), a0))))
			}
		}
		for _, o := range ex.obs {
			o.Hyps = append(o.Hyps, axioms...)
		}
	}
	if os.Getenv("GOVC_DEBUG") != "" {
		for _, r := range ex.callLog {
			fmt.Printf("  [calllog] %s guard=%s\n", r.Key, truncate(r.Guard.String(), 120))
		}
	}
	// obligation names are unique: repeated sites get an ordinal suffix
	cnt := map[string]int{}
	for _, o := range ex.obs {
		cnt[o.Name]++
		if n := cnt[o.Name]; n > 1 {
			o.Name = fmt.Sprintf("%s~%d", o.Name, n)
		}
	}
	res.Obs = ex.obs
	return res
}

func (ld *Loaded) findLemma(name string) *Lemma {
	for _, cf := range ld.contracts {
		for _, l := range cf.Lemmas {
			if l.Name == name {
				return l
			}
		}
		for _, l := range cf.Axioms {
			if l.Name == name {
				return l
			}
		}
	}
	return nil
}

// frameObligations: everything outside the modifies clause is unchanged (for objects allocated at entry).
func (ex *Exec) frameObligations(fr *Frame, fc *FuncContract, final *State, entryEnv *Env) {
	type allow struct {
		refs []*Term
	}
	allowed := map[string]*allow{}
	wholeKeys := map[string]bool{}
	all := false
	add := func(key string, ref *Term) {
		a := allowed[key]
		if a == nil {
			a = &allow{}
			allowed[key] = a
		}
		a.refs = append(a.refs, ref)
	}
	env := *entryEnv
	env.st = ex.entry
	for _, m := range fc.Modifies {
		if m.Base != nil && !ex.canEval(&env, m.Base) {
			continue // mentions the result: objects reachable only from the result are fresh or covered by ensures
		}
		switch m.Kind {
		case ModAllOfType:
			for _, k := range ex.typeKeys(&env, m) {
				wholeKeys[k.key] = true
			}
		case ModAllMem:
			for _, k := range ex.memKeys(&env, m) {
				wholeKeys[k.key] = true
			}
		case ModAll:
			all = true
		case ModField, ModAllFields:
			var loc *Loc
			if m.Kind == ModField {
				loc = ex.fieldLocE(&env, m.Base, m.Field)
			} else {
				loc = ex.locOf(ex.eval(&env, m.Base))
			}
			n := len(layoutOf(loc.T).Leaves)
			for j := 0; j < n; j++ {
				key, _, _ := ex.entry.leafBase(loc, j)
				add(key, loc.Ref)
			}
		case ModWindow:
			base := ex.eval(&env, m.Base)
			if u, ok := base.T.Underlying().(*types.Slice); ok {
				el := layoutOf(u.Elem())
				off, ln := sliceOff(base), sliceLen(base)
				for j, lf := range el.Leaves {
					key := memKey(u.Elem(), j, lf)
					add(key, sliceArr(base))
					// elements of the backing array outside the slice's bounds are unchanged
					srt := final.sorts[key]
					if srt == nil {
						continue
					}
					i := FreshVar("frame_idx", BVS(64))
					outside := Or(BVCmp("bvslt", i, off), BVCmp("bvsge", i, BVBin("bvadd", off, ln)))
					fin := Select(Select(final.get(key, srt), sliceArr(base)), i)
					ini := Select(Select(ex.entry.get(key, srt), sliceArr(base)), i)
					ex.oblige(fr, final, "frame", "frame:window:"+key, fr.fn.Pos(), "modifies "+m.Src, Implies(outside, Eq(fin, ini)))
				}
			}
		case ModElems:
			base := ex.eval(&env, m.Base)
			switch u := base.T.Underlying().(type) {
			case *types.Slice:
				el := layoutOf(u.Elem())
				for j, lf := range el.Leaves {
					add(memKey(u.Elem(), j, lf), sliceArr(base))
				}
			case *types.Map:
				mi := mapKeys(base.T)
				add(mi.dom, base.Term())
				add(mi.ln, base.Term())
				for _, k := range mi.vals {
					add(k, base.Term())
				}
			case *types.Pointer:
				loc := ex.locOf(base)
				n := len(layoutOf(loc.T).Leaves)
				for j := 0; j < n; j++ {
					key, _, _ := ex.entry.leafBase(loc, j)
					add(key, loc.Ref)
				}
			}
		}
	}
	if all {
		return
	}
	var keys []string
	for k := range final.h {
		keys = append(keys, k)
	}
	sort.Strings(keys)
	for _, k := range keys {
		if k == allocKey || wholeKeys[k] || strings.HasPrefix(k, "R:") || strings.HasPrefix(k, "RC:") || strings.HasPrefix(k, "RD:") {
			continue // (R: is the ghost visited-set of map iterations)
		}
		srt := final.sorts[k]
		fin := final.h[k]
		ini := ex.entry.get(k, srt)
		if fin == ini {
			continue
		}
		if srt.K != KArray || srt.A != IntS {
			ex.oblige(fr, final, "frame", "frame:"+k, fr.fn.Pos(), "modifies", Eq(fin, ini))
			continue
		}
		r := FreshVar("frame_ref", IntS)
		hyp := []*Term{IntLe(r, ex.entry.alloc())}
		if a := allowed[k]; a != nil {
			for _, x := range a.refs {
				hyp = append(hyp, Not(Eq(r, x)))
			}
		}
		g := Implies(And(hyp...), Eq(Select(fin, r), Select(ini, r)))
		ex.oblige(fr, final, "frame", "frame:"+k, fr.fn.Pos(), "modifies "+modSrc(fc), g)
	}
}

func modSrc(fc *FuncContract) string {
	var s []string
	for _, m := range fc.Modifies {
		s = append(s, m.Src)
	}
	return strings.Join(s, ", ")
}

// verifyLemma proves a standalone lemma.
func (ld *Loaded) verifyLemma(l *Lemma) *FuncResult {
	res := &FuncResult{Fn: "lemma:" + l.Name}
	ex := newExec(ld, nil)
	defer func() {
		if r := recover(); r != nil {
			switch e := r.(type) {
			case *Unsupported:
				res.Unsupported = e.Msg
			case *specErr:
				res.Unsupported = "contract error: " + e.msg
			default:
				panic(r)
			}
		}
	}()
	st := newState()
	ex.entry = st
	env := &Env{ex: ex, st: st, old: st, vars: map[string]Val{}, pkg: ld.pkgByPath(l.Pkg)}
	g := ex.evalBool(env, l.E)
	o := &Obligation{Name: "lemma:" + l.Name, Kind: "lemma", Fn: "lemma:" + l.Name, Src: l.Src, Goal: g, ex: ex, st: st,
		Hyps: append([]*Term{}, ex.assumptions...)}
	res.Obs = []*Obligation{o}
	return res
}

func (o *Obligation) String() string {
	return fmt.Sprintf("%s [%s]", o.Name, o.Res.Status)
}

// applyGhost performs the contract's ghost assignments (simultaneously) on st.
func (ex *Exec) applyGhost(env *Env, fc *FuncContract, st *State) {
	type upd struct {
		loc *Loc
		v   Val
	}
	var us []upd
	for _, g := range fc.Ghost {
		if g.Target.Kind != ModField {
			sfail("ghost assignment target must be a field: %s", g.Src)
		}
		oldEnv := *env
		oldEnv.st = env.old
		loc := ex.fieldLocE(&oldEnv, g.Target.Base, g.Target.Field)
		v := ex.eval(env, g.Value)
		if v.Const != nil {
			v = coerce(v, loc.T)
		}
		if len(v.L) != len(layoutOf(loc.T).Leaves) {
			sfail("ghost assignment type mismatch in %s", g.Src)
		}
		v.T = loc.T
		us = append(us, upd{loc, v})
	}
	for _, u := range us {
		st.store(u.loc, u.v)
	}
}

func (ex *Exec) canEval(env *Env, e Expr) (ok bool) {
	defer func() {
		if r := recover(); r != nil {
			if _, is := r.(*specErr); is {
				ok = false
				return
			}
			panic(r)
		}
	}()
	ex.eval(env, e)
	return true
}
