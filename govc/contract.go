package main

// Contract files: //@ comment lines in <pkg>/zz_contracts_verif.go; expression parser.

import (
	"fmt"
	"math/big"
	"os"
	"strings"
)

// ---- expression AST

type Expr interface{}

type (
	EIdent  struct{ Name string }
	EInt    struct{ V *big.Int }
	EBool   struct{ V bool }
	ENil    struct{}
	EStr    struct{ S string }
	EFloat  struct{ V float64 }
	EUnary  struct {
		Op string
		X  Expr
	}
	EBinary struct {
		Op   string
		X, Y Expr
	}
	ECall struct {
		Fun  Expr
		Args []Expr
	}
	EIndex struct{ X, I Expr }
	ESlice struct{ X, Lo, Hi Expr }
	ESel   struct {
		X   Expr
		Sel string
	}
	QVar struct {
		Name string
		T    string
	}
	EQuant struct {
		Lambda bool
		Forall bool
		Vars   []QVar
		Body   Expr
	}
	EOld  struct{ X Expr }
	EStar struct{ X Expr } // x[*] / x.* in modifies
)

type Clause struct {
	Label   string
	E       Expr
	Src     string
	Assumed bool // ensures_assumed: available to callers, not proved of the body (listed as an assumption)
}

type LoopContract struct {
	NoAutoFrame bool
	NoBreak     bool // the loop is only left through its own condition (every element is visited)
	Invs      []Clause
	Iters     []Clause // checked at the end of every iteration over the calls made during that iteration
	Decreases Expr
	DecSrc    string
}

type ModKind int

const (
	ModAll ModKind = iota
	ModField
	ModAllFields
	ModElems
	ModAllOfType // every object of a type: all T.f / all T.*
	ModAllMem    // every backing array with element type T: mem T
	ModWindow    // the elements of a slice within its bounds only (not the rest of its backing array): window x
)

type ModTarget struct {
	TypeName string
	Kind  ModKind
	Base  Expr
	Field string
	Src   string
}

type FuncContract struct {
	Key      string
	Pkg      string
	Requires []Clause
	Ensures  []Clause
	Modifies []*ModTarget
	HasMod   bool
	Loops    map[int]*LoopContract
	Inline   bool // contract only supplies loop invariants; callers inline the body
	Pure     bool
	Opts     map[string]string
	Uses     []string
	Line     int
	Ghost    []GhostAssign
	Trusted  bool // assumed contract on a dependency (never proved here)
	// assumptions made right after a named call returns (listed in the evidence as assumptions)
	AssumeAfter []CallAssume
}

type CallAssume struct {
	Key string
	Cl  Clause
	Why string
}

type GhostAssign struct {
	Target *ModTarget
	Value  Expr
	Src    string
}

type SpecParam struct{ Name, T string }

type SpecFunc struct {
	Name   string
	Params []SpecParam
	Result string
	Body   Expr
	Pkg    string
	Src    string
	Rec    bool
	// state components the body reads (heap-dependent recursive spec functions); computed on first use
	Keys     []string
	KeySorts []*Sort
	KeysDone bool
}

type Lemma struct {
	Name string
	E    Expr
	Src  string
	Pkg  string
}

type GhostDecl struct {
	TypeName string
	Name     string
	T        string
	Pkg      string
}

type ContractFile struct {
	Path   string
	Pkg    string
	Funcs  map[string]*FuncContract
	Specs  map[string]*SpecFunc
	Lemmas []*Lemma
	Ghosts []*GhostDecl
	Axioms []*Lemma
	Ifaces map[string]*FuncContract // "Type.Method"
}

// ---- lexer

type tok struct {
	kind string // id, int, str, op, eof
	s    string
}

func lex(src string) ([]tok, error) {
	var out []tok
	i := 0
	ops := []string{"<==>", "==>", "::", "==", "!=", "<=", ">=", "<<", ">>", "&&", "||", "&^", ":=",
		"+", "-", "*", "/", "%", "&", "|", "^", "!", "<", ">", "(", ")", "[", "]", ".", ",", ":", "{", "}"}
	for i < len(src) {
		c := src[i]
		switch {
		case c == ' ' || c == '\t' || c == '\n' || c == '\r':
			i++
		case c >= '0' && c <= '9':
			j := i
			for j < len(src) && (src[j] >= '0' && src[j] <= '9' || src[j] >= 'a' && src[j] <= 'f' || src[j] >= 'A' && src[j] <= 'F' || src[j] == 'x' || src[j] == 'X' || src[j] == '_') {
				j++
			}
			if j+1 < len(src) && src[j] == '.' && src[j+1] >= '0' && src[j+1] <= '9' {
				k := j + 1
				for k < len(src) && src[k] >= '0' && src[k] <= '9' {
					k++
				}
				out = append(out, tok{"float", src[i:k]})
				i = k
				continue
			}
			out = append(out, tok{"int", strings.ReplaceAll(src[i:j], "_", "")})
			i = j
		case c == '_' || c >= 'a' && c <= 'z' || c >= 'A' && c <= 'Z':
			j := i
			for j < len(src) && (src[j] == '_' || src[j] == '$' || src[j] >= 'a' && src[j] <= 'z' || src[j] >= 'A' && src[j] <= 'Z' || src[j] >= '0' && src[j] <= '9') {
				j++
			}
			out = append(out, tok{"id", src[i:j]})
			i = j
		case c == '"':
			j := i + 1
			for j < len(src) && src[j] != '"' {
				j++
			}
			out = append(out, tok{"str", src[i+1 : j]})
			i = j + 1
		default:
			found := false
			for _, o := range ops {
				if strings.HasPrefix(src[i:], o) {
					out = append(out, tok{"op", o})
					i += len(o)
					found = true
					break
				}
			}
			if !found {
				return nil, fmt.Errorf("unexpected character %q in %q", c, src)
			}
		}
	}
	out = append(out, tok{"eof", ""})
	return out, nil
}

type parser struct {
	toks []tok
	pos  int
	src  string
}

func (p *parser) peek() tok { return p.toks[p.pos] }
func (p *parser) next() tok  { t := p.toks[p.pos]; p.pos++; return t }
func (p *parser) isOp(s string) bool {
	t := p.peek()
	return t.kind == "op" && t.s == s
}
func (p *parser) expectOp(s string) {
	if !p.isOp(s) {
		panic(fmt.Errorf("expected %q at token %d (%q) in: %s", s, p.pos, p.peek().s, p.src))
	}
	p.pos++
}

func parseExpr(src string) (e Expr, err error) {
	toks, err := lex(src)
	if err != nil {
		return nil, err
	}
	p := &parser{toks: toks, src: src}
	defer func() {
		if r := recover(); r != nil {
			if er, ok := r.(error); ok {
				err = er
				return
			}
			panic(r)
		}
	}()
	e = p.expr()
	if p.peek().kind != "eof" {
		return nil, fmt.Errorf("trailing tokens at %q in: %s", p.peek().s, src)
	}
	return e, nil
}

func (p *parser) expr() Expr {
	t := p.peek()
	if t.kind == "id" && (t.s == "forall" || t.s == "exists" || t.s == "lambda") {
		p.next()
		var vars []QVar
		for {
			name := p.next()
			if name.kind != "id" {
				panic(fmt.Errorf("quantifier variable expected in: %s", p.src))
			}
			ty := p.typeExpr()
			vars = append(vars, QVar{name.s, ty})
			if p.isOp(",") {
				p.next()
				continue
			}
			break
		}
		p.expectOp("::")
		body := p.expr()
		return &EQuant{Forall: t.s == "forall", Lambda: t.s == "lambda", Vars: vars, Body: body}
	}
	return p.iff()
}

// typeExpr consumes a type and returns its text.
func (p *parser) typeExpr() string {
	var sb strings.Builder
	for {
		t := p.peek()
		if t.kind == "op" && (t.s == "*" || t.s == "[" || t.s == "]" || t.s == ".") {
			sb.WriteString(t.s)
			p.next()
			continue
		}
		if t.kind == "id" || t.kind == "int" {
			sb.WriteString(t.s)
			p.next()
			// continue only if followed by '.' (qualified) or we are inside brackets
			if p.isOp(".") {
				continue
			}
			s := sb.String()
			if strings.Count(s, "[") > strings.Count(s, "]") {
				continue
			}
			return s
		}
		panic(fmt.Errorf("bad type in: %s", p.src))
	}
}

func (p *parser) iff() Expr {
	x := p.implies()
	for p.isOp("<==>") {
		p.next()
		y := p.implies()
		x = &EBinary{"<==>", x, y}
	}
	return x
}

func (p *parser) implies() Expr {
	x := p.or()
	if p.isOp("==>") {
		p.next()
		var y Expr
		if t := p.peek(); t.kind == "id" && (t.s == "forall" || t.s == "exists") {
			y = p.expr()
		} else {
			y = p.implies()
		}
		return &EBinary{"==>", x, y}
	}
	return x
}

func (p *parser) or() Expr {
	x := p.and()
	for p.isOp("||") {
		p.next()
		x = &EBinary{"||", x, p.and()}
	}
	return x
}

func (p *parser) and() Expr {
	x := p.cmp()
	for p.isOp("&&") {
		p.next()
		if t := p.peek(); t.kind == "id" && (t.s == "forall" || t.s == "exists") {
			x = &EBinary{"&&", x, p.expr()}
			return x
		}
		x = &EBinary{"&&", x, p.cmp()}
	}
	return x
}

func (p *parser) cmp() Expr {
	x := p.add()
	for {
		t := p.peek()
		if t.kind == "op" && (t.s == "==" || t.s == "!=" || t.s == "<" || t.s == "<=" || t.s == ">" || t.s == ">=") {
			p.next()
			x = &EBinary{t.s, x, p.add()}
			continue
		}
		return x
	}
}

func (p *parser) add() Expr {
	x := p.mul()
	for {
		t := p.peek()
		if t.kind == "op" && (t.s == "+" || t.s == "-" || t.s == "|" || t.s == "^") {
			p.next()
			x = &EBinary{t.s, x, p.mul()}
			continue
		}
		return x
	}
}

func (p *parser) mul() Expr {
	x := p.unary()
	for {
		t := p.peek()
		if t.kind == "op" && (t.s == "*" || t.s == "/" || t.s == "%" || t.s == "<<" || t.s == ">>" || t.s == "&" || t.s == "&^") {
			p.next()
			x = &EBinary{t.s, x, p.unary()}
			continue
		}
		return x
	}
}

func (p *parser) unary() Expr {
	t := p.peek()
	if t.kind == "op" && (t.s == "!" || t.s == "-" || t.s == "^" || t.s == "&") {
		p.next()
		return &EUnary{t.s, p.unary()}
	}
	return p.postfix()
}

func (p *parser) postfix() Expr {
	x := p.primary()
	for {
		switch {
		case p.isOp("."):
			p.next()
			if p.isOp("*") {
				p.next()
				x = &EStar{&ESel{x, "*"}}
				continue
			}
			if p.isOp("(") {
				// type assertion x.(T): not supported in specs
				panic(fmt.Errorf("type assertion in spec: %s", p.src))
			}
			id := p.next()
			if id.kind != "id" {
				panic(fmt.Errorf("selector expected in: %s", p.src))
			}
			x = &ESel{x, id.s}
		case p.isOp("("):
			p.next()
			var args []Expr
			for !p.isOp(")") {
				args = append(args, p.expr())
				if p.isOp(",") {
					p.next()
				}
			}
			p.expectOp(")")
			x = &ECall{x, args}
		case p.isOp("["):
			p.next()
			if p.isOp("*") {
				p.next()
				p.expectOp("]")
				x = &EStar{x}
				continue
			}
			var lo, hi Expr
			if !p.isOp(":") {
				lo = p.expr()
			}
			if p.isOp(":") {
				p.next()
				if !p.isOp("]") {
					hi = p.expr()
				}
				p.expectOp("]")
				x = &ESlice{x, lo, hi}
				continue
			}
			p.expectOp("]")
			x = &EIndex{x, lo}
		default:
			return x
		}
	}
}

func (p *parser) primary() Expr {
	t := p.next()
	switch t.kind {
	case "int":
		v, ok := new(big.Int).SetString(t.s, 0)
		if !ok {
			panic(fmt.Errorf("bad integer %q", t.s))
		}
		return &EInt{v}
	case "str":
		return &EStr{t.s}
	case "float":
		var f float64
		fmt.Sscanf(t.s, "%g", &f)
		return &EFloat{f}
	case "id":
		switch t.s {
		case "true":
			return &EBool{true}
		case "false":
			return &EBool{false}
		case "nil":
			return &ENil{}
		case "old":
			p.expectOp("(")
			e := p.expr()
			p.expectOp(")")
			return &EOld{e}
		}
		return &EIdent{t.s}
	case "op":
		if t.s == "(" {
			e := p.expr()
			p.expectOp(")")
			return e
		}
		if t.s == "*" {
			return &EIdent{"*"}
		}
	}
	panic(fmt.Errorf("unexpected token %q in: %s", t.s, p.src))
}

// ---- contract file reader

var stmtKeywords = map[string]bool{"functional": true, "trusted": true, "assume_after": true, "iface": true, "package": true, "ghost": true, "pred": true, "def": true, "func": true, "requires": true, "ensures": true, "ensures_assumed": true,
	"modifies": true, "loop": true, "lemma": true, "axiom": true, "opt": true, "inline": true, "pure": true, "use": true}

func readContractFile(path, pkg string) (*ContractFile, error) {
	data, err := os.ReadFile(path)
	if err != nil {
		return nil, err
	}
	cf := &ContractFile{Path: path, Pkg: pkg, Funcs: map[string]*FuncContract{}, Specs: map[string]*SpecFunc{}, Ifaces: map[string]*FuncContract{}}
	type stmt struct {
		text string
		line int
	}
	var stmts []stmt
	for i, ln := range strings.Split(string(data), "\n") {
		t := strings.TrimSpace(ln)
		if !strings.HasPrefix(t, "//@") {
			continue
		}
		t = strings.TrimSpace(t[3:])
		if t == "" || strings.HasPrefix(t, "#") {
			continue
		}
		// strip trailing comments introduced by " // "
		if k := strings.Index(t, " // "); k >= 0 {
			t = strings.TrimSpace(t[:k])
		}
		first := t
		if k := strings.IndexAny(t, " \t("); k >= 0 {
			first = t[:k]
		}
		if stmtKeywords[first] {
			stmts = append(stmts, stmt{t, i + 1})
		} else if len(stmts) > 0 {
			stmts[len(stmts)-1].text += " " + t
		} else {
			return nil, fmt.Errorf("%s:%d: continuation without statement", path, i+1)
		}
	}
	var cur *FuncContract
	for _, s := range stmts {
		kw, rest := s.text, ""
		if k := strings.IndexAny(s.text, " \t"); k >= 0 {
			kw, rest = s.text[:k], strings.TrimSpace(s.text[k+1:])
		}
		fail := func(e error) error { return fmt.Errorf("%s:%d: %v", path, s.line, e) }
		switch kw {
		case "ghost":
			// ghost (T) name type     |  inside a func block: ghost s.f := expr
			r := strings.TrimSpace(rest)
			if k := strings.Index(r, ":="); k > 0 && !strings.HasPrefix(r, "(") {
				if cur == nil {
					return nil, fail(fmt.Errorf("ghost assignment outside func"))
				}
				mt, err := parseModTarget(strings.TrimSpace(r[:k]))
				if err != nil {
					return nil, fail(err)
				}
				e, err := parseExpr(r[k+2:])
				if err != nil {
					return nil, fail(err)
				}
				cur.Ghost = append(cur.Ghost, GhostAssign{Target: mt, Value: e, Src: r})
				cur.Modifies = append(cur.Modifies, mt)
				break
			}
			if !strings.HasPrefix(r, "(") {
				return nil, fail(fmt.Errorf("ghost (Type) name type"))
			}
			k := strings.Index(r, ")")
			tn := strings.TrimSpace(r[1:k])
			fs := strings.Fields(r[k+1:])
			if len(fs) < 2 {
				return nil, fail(fmt.Errorf("ghost (Type) name type"))
			}
			cf.Ghosts = append(cf.Ghosts, &GhostDecl{TypeName: tn, Name: fs[0], T: strings.Join(fs[1:], ""), Pkg: pkg})
		case "pred", "def":
			isRec := false
			if strings.HasPrefix(rest, "rec ") {
				isRec = true
				rest = strings.TrimSpace(rest[4:])
			}
			sf, err := parseSpecFunc(rest, kw == "pred")
			if sf != nil {
				sf.Rec = isRec
			}
			if err != nil {
				return nil, fail(err)
			}
			sf.Pkg = pkg
			cf.Specs[sf.Name] = sf
		case "package":
			cf.Pkg = strings.TrimSpace(rest)
			pkg = cf.Pkg
		case "func":
			cur = &FuncContract{Key: strings.TrimSpace(rest), Pkg: pkg, Loops: map[int]*LoopContract{}, Opts: map[string]string{}, Line: s.line}
			cf.Funcs[cur.Key] = cur
		case "iface":
			cur = &FuncContract{Key: strings.TrimSpace(rest), Pkg: pkg, Loops: map[int]*LoopContract{}, Opts: map[string]string{}, Line: s.line}
			cf.Ifaces[cur.Key] = cur
		case "lemma", "axiom":
			k := strings.Index(rest, ":")
			e, err := parseExpr(rest[k+1:])
			if err != nil {
				return nil, fail(err)
			}
			l := &Lemma{Name: strings.TrimSpace(rest[:k]), E: e, Src: strings.TrimSpace(rest[k+1:]), Pkg: pkg}
			if kw == "lemma" {
				cf.Lemmas = append(cf.Lemmas, l)
			} else {
				cf.Axioms = append(cf.Axioms, l)
			}
		default:
			if cur == nil {
				return nil, fail(fmt.Errorf("%s outside func", kw))
			}
			switch kw {
			case "requires", "ensures", "ensures_assumed":
				cl, err := parseClause(rest)
				if err != nil {
					return nil, fail(err)
				}
				if kw == "ensures_assumed" {
					cl.Assumed = true
				}
				if kw == "requires" {
					cur.Requires = append(cur.Requires, cl)
				} else {
					cur.Ensures = append(cur.Ensures, cl)
				}
			case "modifies":
				cur.HasMod = true
				if strings.TrimSpace(rest) == "nothing" {
					break
				}
				for _, part := range splitTop(rest) {
					mt, err := parseModTarget(part)
					if err != nil {
						return nil, fail(err)
					}
					cur.Modifies = append(cur.Modifies, mt)
				}
			case "loop":
				fs := strings.SplitN(rest, " ", 3)
				if len(fs) < 3 {
					return nil, fail(fmt.Errorf("loop <n> invariant|decreases <expr>"))
				}
				var n int
				fmt.Sscanf(fs[0], "%d", &n)
				lc := cur.Loops[n]
				if lc == nil {
					lc = &LoopContract{}
					cur.Loops[n] = lc
				}
				switch fs[1] {
				case "invariant":
					cl, err := parseClause(fs[2])
					if err != nil {
						return nil, fail(err)
					}
					lc.Invs = append(lc.Invs, cl)
				case "iteration":
					cl, err := parseClause(fs[2])
					if err != nil {
						return nil, fail(err)
					}
					lc.Iters = append(lc.Iters, cl)
				case "decreases":
					e, err := parseExpr(fs[2])
					if err != nil {
						return nil, fail(err)
					}
					lc.Decreases, lc.DecSrc = e, fs[2]
				case "opt":
					if strings.TrimSpace(fs[2]) == "noautoframe" {
						lc.NoAutoFrame = true
					}
					if strings.TrimSpace(fs[2]) == "nobreak" {
						lc.NoBreak = true
					}
				default:
					return nil, fail(fmt.Errorf("loop <n> invariant|decreases"))
				}
			case "assume_after":
				// assume_after "key" label: expr
				r := strings.TrimSpace(rest)
				if !strings.HasPrefix(r, "\"") {
					return nil, fail(fmt.Errorf("assume_after \"call key\" label: expr"))
				}
				k := strings.Index(r[1:], "\"")
				key := r[1 : 1+k]
				cl, err := parseClause(strings.TrimSpace(r[k+2:]))
				if err != nil {
					return nil, fail(err)
				}
				cur.AssumeAfter = append(cur.AssumeAfter, CallAssume{Key: key, Cl: cl})
			case "trusted":
				// the contract is assumed, not proved (reported as an assumption wherever it is used)
				cur.Trusted = true
				cur.Opts["trusted_reason"] = strings.TrimSpace(rest)
			case "inline":
				cur.Inline = true
			case "pure":
				cur.Pure = true
			case "functional":
				// the (scalar) results are a function of the argument values only
				cur.Pure = true
				cur.Opts["functional"] = "true"
			case "opt":
				kv := strings.SplitN(rest, "=", 2)
				if len(kv) == 2 {
					cur.Opts[strings.TrimSpace(kv[0])] = strings.TrimSpace(kv[1])
				} else {
					cur.Opts[strings.TrimSpace(rest)] = "true"
				}
			case "use":
				cur.Uses = append(cur.Uses, strings.Fields(strings.ReplaceAll(rest, ",", " "))...)
			}
		}
	}
	return cf, nil
}

func splitTop(s string) []string {
	var out []string
	depth := 0
	st := 0
	for i, c := range s {
		switch c {
		case '(', '[':
			depth++
		case ')', ']':
			depth--
		case ',':
			if depth == 0 {
				out = append(out, strings.TrimSpace(s[st:i]))
				st = i + 1
			}
		}
	}
	if strings.TrimSpace(s[st:]) != "" {
		out = append(out, strings.TrimSpace(s[st:]))
	}
	return out
}

func parseClause(s string) (Clause, error) {
	label := ""
	src := s
	// label: identifier followed by ':' (but not '::')
	if k := strings.Index(s, ":"); k > 0 && !strings.HasPrefix(s[k:], "::") {
		cand := strings.TrimSpace(s[:k])
		ok := cand != ""
		for _, c := range cand {
			if !(c == '_' || c >= 'a' && c <= 'z' || c >= 'A' && c <= 'Z' || c >= '0' && c <= '9') {
				ok = false
			}
		}
		if ok {
			label = cand
			src = strings.TrimSpace(s[k+1:])
		}
	}
	e, err := parseExpr(src)
	if err != nil {
		return Clause{}, err
	}
	if label == "" {
		label = fmt.Sprintf("c%x", fnv(src))
	}
	return Clause{Label: label, E: e, Src: src}, nil
}

func fnv(s string) uint32 {
	h := uint32(2166136261)
	for i := 0; i < len(s); i++ {
		h ^= uint32(s[i])
		h *= 16777619
	}
	return h & 0xffff
}

func parseModTarget(s string) (*ModTarget, error) {
	s = strings.TrimSpace(s)
	if s == "*" {
		return &ModTarget{Kind: ModAll, Src: s}, nil
	}
	if strings.HasPrefix(s, "mem ") {
		return &ModTarget{Kind: ModAllMem, TypeName: strings.TrimSpace(s[4:]), Src: s}, nil
	}
	if strings.HasPrefix(s, "window ") {
		e, err := parseExpr(strings.TrimSpace(s[7:]))
		if err != nil {
			return nil, err
		}
		return &ModTarget{Kind: ModWindow, Base: e, Src: s}, nil
	}
	if strings.HasPrefix(s, "all ") {
		r := strings.TrimSpace(s[4:])
		k := strings.LastIndex(r, ".")
		if k < 0 {
			return nil, fmt.Errorf("all T.field or all T.*")
		}
		return &ModTarget{Kind: ModAllOfType, TypeName: r[:k], Field: r[k+1:], Src: s}, nil
	}
	e, err := parseExpr(s)
	if err != nil {
		return nil, err
	}
	switch x := e.(type) {
	case *EStar:
		if sel, ok := x.X.(*ESel); ok && sel.Sel == "*" {
			return &ModTarget{Kind: ModAllFields, Base: sel.X, Src: s}, nil
		}
		return &ModTarget{Kind: ModElems, Base: x.X, Src: s}, nil
	case *ESel:
		return &ModTarget{Kind: ModField, Base: x.X, Field: x.Sel, Src: s}, nil
	}
	return nil, fmt.Errorf("bad modifies target %q", s)
}

// parseSpecFunc: name(p T, q U) R := body      (pred: result bool implied)
func parseSpecFunc(s string, pred bool) (*SpecFunc, error) {
	k := strings.Index(s, ":=")
	if k < 0 {
		return nil, fmt.Errorf("spec function needs ':='")
	}
	head, body := strings.TrimSpace(s[:k]), strings.TrimSpace(s[k+2:])
	op := strings.Index(head, "(")
	cp := strings.LastIndex(head, ")")
	if op < 0 || cp < op {
		return nil, fmt.Errorf("spec function head %q", head)
	}
	sf := &SpecFunc{Name: strings.TrimSpace(head[:op]), Src: body}
	for _, part := range splitTop(head[op+1 : cp]) {
		fs := strings.Fields(part)
		if len(fs) < 2 {
			return nil, fmt.Errorf("parameter %q", part)
		}
		sf.Params = append(sf.Params, SpecParam{fs[0], strings.Join(fs[1:], "")})
	}
	sf.Result = strings.TrimSpace(head[cp+1:])
	if pred || sf.Result == "" {
		sf.Result = "bool"
	}
	e, err := parseExpr(body)
	if err != nil {
		return nil, err
	}
	sf.Body = e
	return sf, nil
}
