package main

// Solver time limits are limits on CPU time, and the per-obligation budgets that decide which stages are still
// tried run on a clock that slows down with the machine.
//
// A wall-clock limit makes the verdict depend on what else the machine is doing: the same obligation that is
// discharged in 5 s on an idle machine is "undecided" when sixteen other processes compete for the cores, and an
// undecided obligation is reported. Every solver process is therefore watched through /proc/<pid>/stat and stopped
// when utime+stime reaches the limit; on an idle machine that is the same moment as before (the solvers are
// single-threaded), on a busy one the solver gets the same amount of work done. The solver's own wall-clock
// limit is kept, wallSlack times longer, for a process that is starved or stuck.
//
// The watchdogs also measure how fast the solvers progress (CPU seconds per wall second, smoothed); budgetElapsed
// scales elapsed wall time by that, so a stage budget of 30 s means 30 s of solver progress.

import (
	"fmt"
	"os"
	"os/exec"
	"strconv"
	"strings"
	"sync"
	"time"
)

// wallSlack: how much longer than its CPU limit a solver may run by the wall clock.
var wallSlack = func() int {
	if v, err := strconv.Atoi(os.Getenv("GOVC_WALLSLACK")); err == nil && v >= 1 {
		return v
	}
	return 5
}()

const clockTick = 100.0 // USER_HZ on Linux

// procCPU: CPU seconds (user+system, all threads) consumed by the process so far.
func procCPU(pid int) (float64, bool) {
	b, err := os.ReadFile(fmt.Sprintf("/proc/%d/stat", pid))
	if err != nil {
		return 0, false
	}
	s := string(b)
	// the command name (field 2) is in parentheses and may contain spaces: fields are counted after the last ')'
	k := strings.LastIndexByte(s, ')')
	if k < 0 {
		return 0, false
	}
	f := strings.Fields(s[k+1:])
	// f[0] is field 3 (state); utime and stime are fields 14 and 15
	if len(f) < 13 {
		return 0, false
	}
	ut, e1 := strconv.ParseFloat(f[11], 64)
	st, e2 := strconv.ParseFloat(f[12], 64)
	if e1 != nil || e2 != nil {
		return 0, false
	}
	return (ut + st) / clockTick, true
}

var (
	effMu  sync.Mutex
	effEMA = 1.0 // smoothed CPU seconds per wall second of the running solvers
)

func noteProgress(dCPU, dWall float64) {
	if dWall <= 0 {
		return
	}
	e := dCPU / dWall
	if e > 1 {
		e = 1
	}
	effMu.Lock()
	effEMA = 0.995*effEMA + 0.005*e
	effMu.Unlock()
}

// slowdown: how many wall seconds a solver currently needs for one CPU second (1 on an idle machine, at most wallSlack).
func slowdown() float64 {
	effMu.Lock()
	e := effEMA
	effMu.Unlock()
	if e >= 0.9 {
		// measurement noise (process start-up, reading the script): treated as an idle machine
		return 1
	}
	if e < 1/float64(wallSlack) {
		e = 1 / float64(wallSlack)
	}
	return 1 / e
}

// budgetElapsed: seconds of solver progress since t0 (wall time on an idle machine).
func budgetElapsed(t0 time.Time) float64 {
	return time.Since(t0).Seconds() / slowdown()
}

// budgetDeadline: the moment at which `seconds` of budget counted from t0 are used up at the current pace.
func budgetDeadline(t0 time.Time, seconds float64) time.Time {
	return t0.Add(time.Duration(seconds * slowdown() * float64(time.Second)))
}

// runWithCPULimit runs the command and stops it when it has consumed limitS seconds of CPU time;
// reports whether that limit stopped it.
func runWithCPULimit(cmd *exec.Cmd, limitS float64) (cpuOut bool) {
	if err := cmd.Start(); err != nil {
		return false
	}
	done := make(chan struct{})
	go func() {
		_ = cmd.Wait()
		close(done)
	}()
	pid := cmd.Process.Pid
	tick := time.NewTicker(100 * time.Millisecond)
	defer tick.Stop()
	last, lastT := 0.0, time.Now()
	for {
		select {
		case <-done:
			return cpuOut
		case now := <-tick.C:
			cpu, ok := procCPU(pid)
			if !ok {
				continue
			}
			noteProgress(cpu-last, now.Sub(lastT).Seconds())
			last, lastT = cpu, now
			if cpu >= limitS && !cpuOut {
				cpuOut = true
				_ = cmd.Process.Kill()
			}
		}
	}
}
